package main

// Lock facts (property C14): a syntactic lock-region analysis over the CURRENT dnsrocks source.
//
//	lockFactsLean(root) -> Lean source of module DnsVerif.Generated.LockFacts, or an error
//
// For every read/write occurrence of a configured shared struct field it emits one row
// (struct.field, enclosing function, R|W, locks held with mode, init phase, file:line); it also
// emits the lock-order edges "lock B acquired while lock A is held" (through the syntactically
// resolvable call graph, including the hand-written interface dispatch table below).
//
// Lock regions: exactly two shapes are understood
//   (1) x.Lock(); defer x.Unlock()     (directly adjacent; in a nested block only if the block ends in return)
//   (2) x.Lock(); ...; x.Unlock()      (same statement list, no return/escaping branch in between)
// Anything else is an extraction ERROR (fail closed), as is: an access whose receiver type cannot
// be resolved, the address of a shared field being taken, an unkeyed literal of a shared struct,
// a call through an interface that has no dispatch entry, a stale caller-context expectation.
//
// Hand-written expectations (the trusted part of this tie) are the four tables right below.

import (
	"bytes"
	"fmt"
	"go/ast"
	"go/parser"
	"go/printer"
	"go/token"
	"os"
	"path/filepath"
	"sort"
	"strconv"
	"strings"
)

// ---------------------------------------------------------------------------------------------
// configuration / expectations

type lfPkgCfg struct{ key, rel string }

// packages that are scanned completely (all non-test files not guarded by the `verif` build tag)
var lfPackages = []lfPkgCfg{
	{"dnsserver", "dnsserver"},
	{"stats", "dnsserver/stats"},
	{"db", "db"},
	{"rdb", "dnsdata/rdb"},
	{"metrics", "metrics"},
}

type lfField struct {
	pkg, strct string
	path       []string // selector chain below the struct
	// callsMutate: a method call through the field mutates the (not thread-safe) object behind it
	callsMutate bool
}

var lfShared = []lfField{
	{"dnsserver", "FBDNSDB", []string{"dnsdb"}, false},
	{"dnsserver", "FBDNSDB", []string{"dbConfig", "Path"}, false},
	{"dnsserver", "FBDNSDB", []string{"lru"}, false}, // golang-lru synchronises internally; only the pointer is tracked
	{"db", "DB", []string{"refCount"}, false},
	{"db", "DB", []string{"destroyable"}, false},
	{"db", "DB", []string{"dbi"}, false},
	{"db", "lockedSource", []string{"src"}, true}, // rand.Source64 is not thread-safe: every call is a write
	{"rdb", "IteratorPool", []string{"enabled"}, false},
	{"rdb", "IteratorPool", []string{"iterators"}, false}, // channel: operations synchronise; only the field is tracked
	{"metrics", "Stats", []string{"values"}, false},
	{"metrics", "Stats", []string{"windows"}, false},
	{"metrics", "slidingWindow", []string{"samples"}, false},
}

// functions that run only during initialisation, before the object they touch is shared
var lfInitFns = map[string]bool{
	"dnsserver.NewFBDNSDBBasic": true,
	"dnsserver.FBDNSDB.Load":    true, // called once at start-up (fbserver.NewServer, cmd/*) before serving
	"db.Open":                   true,
	"db.NewRand":                true,
	"rdb.newIteratorPool":       true,
	"metrics.NewStats":          true,
	"metrics.newWindow":         true,
}

type lfLockMode struct {
	name string
	excl bool
}

// "function F is only called with lock L held" – verified against every resolvable call site
var lfCalledWith = map[string][]lfLockMode{
	"dnsserver.FBDNSDB.cleanupSignalFile": {{"FBDNSDB.reloadMu", true}},
	"db.DB.Reload":                        {{"FBDNSDB.reloadMu", true}},
}

// interface dispatch inside the repository: interface -> implementing structs that can be live in
// the server (mocks excluded). An interface of a scanned package that is called but not listed
// here is an extraction error.
var lfIfaceImpl = map[string][]string{
	"db.DBI":              {"db.cdbdriver", "db.rdbdriver"},
	"db.ClosestKeyFinder": {"db.rdbdriver"},
	"db.Reader":           {"db.DataReader", "db.sortedDataReader"},
	"db.Context":          {}, // per-reader scratch state, no locks
	"stats.Stats":         {"metrics.Stats"},
	"dnsserver.Logger":    {}, // logging back-ends are outside the property
	"rdb.DBI":             {}, // implemented by cgo-rocksdb only (outside the repository's Go code)
}

// ---------------------------------------------------------------------------------------------
// loading and a minimal syntactic type resolver

type lfTy struct {
	pkg, name string // named type (pointers stripped); pkg "" = builtin/unknown
	kind      string // "", "map", "slice", "chan", "func"
	elem      *lfTy
}

func (t lfTy) known() bool { return t.name != "" || t.kind != "" }

// foreign: a value of a type declared outside the scanned packages (its methods take none of our locks)
func (w *lfWorld) foreign(t lfTy) bool {
	if t.kind != "" || t.name == "" || t.pkg == "" || t.pkg == "ambiguous" {
		return false
	}
	_, scanned := w.pkgs[t.pkg]
	return !scanned
}
func (t lfTy) key() string { return t.pkg + "." + t.name }
func (t lfTy) isMutex() (rw bool, ok bool) {
	if t.pkg == "sync" && t.name == "Mutex" {
		return false, true
	}
	if t.pkg == "sync" && t.name == "RWMutex" {
		return true, true
	}
	return false, false
}

type lfFile struct {
	f       *ast.File
	rel     string            // path relative to dnsrocks
	imports map[string]string // local name -> package key or import path
}

type lfStructField struct {
	name     string
	ty       ast.Expr
	embedded bool
	file     *lfFile
}

type lfPkg struct {
	key     string
	files   []*lfFile
	structs map[string][]lfStructField
	ifaces  map[string]bool
	imeth   map[string]*ast.FuncType // "Iface.Method"
	imfile  map[string]*lfFile
	funcs   map[string]*ast.FuncDecl // "Recv.Name" or "Name"
	fnFile  map[string]*lfFile
}

type lfWorld struct {
	fset *token.FileSet
	pkgs map[string]*lfPkg
	errs []string
}

func (w *lfWorld) errf(pos token.Pos, f string, a ...interface{}) {
	p := w.fset.Position(pos)
	w.errs = append(w.errs, fmt.Sprintf("%s:%d: %s", p.Filename, p.Line, fmt.Sprintf(f, a...)))
}

func lfLoad(root string) (*lfWorld, error) {
	w := &lfWorld{fset: token.NewFileSet(), pkgs: map[string]*lfPkg{}}
	for _, pc := range lfPackages {
		dir := filepath.Join(root, pc.rel)
		ents, err := os.ReadDir(dir)
		if err != nil {
			return nil, err
		}
		p := &lfPkg{key: pc.key, structs: map[string][]lfStructField{}, ifaces: map[string]bool{},
			imeth: map[string]*ast.FuncType{}, imfile: map[string]*lfFile{},
			funcs: map[string]*ast.FuncDecl{}, fnFile: map[string]*lfFile{}}
		names := []string{}
		for _, e := range ents {
			n := e.Name()
			if strings.HasSuffix(n, ".go") && !strings.HasSuffix(n, "_test.go") {
				names = append(names, n)
			}
		}
		sort.Strings(names)
		for _, n := range names {
			full := filepath.Join(dir, n)
			src, err := os.ReadFile(full)
			if err != nil {
				return nil, err
			}
			f, err := parser.ParseFile(w.fset, filepath.Join(pc.rel, n), src, parser.ParseComments)
			if err != nil {
				return nil, err
			}
			if lfVerifOnly(f) {
				continue // verification hooks are not production code
			}
			lf := &lfFile{f: f, rel: filepath.Join(pc.rel, n), imports: map[string]string{}}
			for _, im := range f.Imports {
				path, _ := strconv.Unquote(im.Path.Value)
				local := path[strings.LastIndex(path, "/")+1:]
				if im.Name != nil {
					local = im.Name.Name
				}
				val := path
				for _, q := range lfPackages {
					if strings.HasSuffix(path, "/dnsrocks/"+q.rel) {
						val = q.key
					}
				}
				lf.imports[local] = val
			}
			p.files = append(p.files, lf)
			for _, d := range f.Decls {
				switch d := d.(type) {
				case *ast.GenDecl:
					if d.Tok != token.TYPE {
						continue
					}
					for _, s := range d.Specs {
						ts := s.(*ast.TypeSpec)
						switch t := ts.Type.(type) {
						case *ast.StructType:
							var fs []lfStructField
							for _, fl := range t.Fields.List {
								if len(fl.Names) == 0 {
									nm := lfTypeName(fl.Type)
									fs = append(fs, lfStructField{nm, fl.Type, true, lf})
								}
								for _, nm := range fl.Names {
									fs = append(fs, lfStructField{nm.Name, fl.Type, false, lf})
								}
							}
							p.structs[ts.Name.Name] = fs
						case *ast.InterfaceType:
							p.ifaces[ts.Name.Name] = true
							for _, m := range t.Methods.List {
								if ft, ok := m.Type.(*ast.FuncType); ok {
									for _, nm := range m.Names {
										p.imeth[ts.Name.Name+"."+nm.Name] = ft
										p.imfile[ts.Name.Name+"."+nm.Name] = lf
									}
								}
							}
						}
					}
				case *ast.FuncDecl:
					k := lfFuncKey(d)
					p.funcs[k] = d
					p.fnFile[k] = lf
				}
			}
		}
		w.pkgs[pc.key] = p
	}
	return w, nil
}

func lfVerifOnly(f *ast.File) bool {
	for _, cg := range f.Comments {
		if cg.Pos() >= f.Package {
			break
		}
		for _, c := range cg.List {
			t := strings.TrimSpace(c.Text)
			if strings.HasPrefix(t, "//go:build") {
				expr := strings.TrimSpace(strings.TrimPrefix(t, "//go:build"))
				if expr == "verif" {
					return true
				}
			}
		}
	}
	return false
}

func lfTypeName(e ast.Expr) string {
	switch t := e.(type) {
	case *ast.StarExpr:
		return lfTypeName(t.X)
	case *ast.Ident:
		return t.Name
	case *ast.SelectorExpr:
		return t.Sel.Name
	}
	return ""
}

func lfFuncKey(d *ast.FuncDecl) string {
	if d.Recv != nil && len(d.Recv.List) == 1 {
		return lfTypeName(d.Recv.List[0].Type) + "." + d.Name.Name
	}
	return d.Name.Name
}

// typeOf converts a type expression (as written in file lf of package p) to lfTy.
func (w *lfWorld) typeOf(p *lfPkg, lf *lfFile, e ast.Expr) lfTy {
	switch t := e.(type) {
	case *ast.StarExpr:
		return w.typeOf(p, lf, t.X)
	case *ast.ParenExpr:
		return w.typeOf(p, lf, t.X)
	case *ast.Ident:
		if _, ok := p.structs[t.Name]; ok || p.ifaces[t.Name] {
			return lfTy{pkg: p.key, name: t.Name}
		}
		return lfTy{pkg: "", name: t.Name}
	case *ast.SelectorExpr:
		if id, ok := t.X.(*ast.Ident); ok {
			if imp, ok := lf.imports[id.Name]; ok {
				return lfTy{pkg: imp, name: t.Sel.Name}
			}
			// a qualified type always names a package (its declared name may differ from the path)
			return lfTy{pkg: "import:" + id.Name, name: t.Sel.Name}
		}
	case *ast.MapType:
		el := w.typeOf(p, lf, t.Value)
		return lfTy{kind: "map", elem: &el}
	case *ast.ArrayType:
		el := w.typeOf(p, lf, t.Elt)
		return lfTy{kind: "slice", elem: &el}
	case *ast.ChanType:
		el := w.typeOf(p, lf, t.Value)
		return lfTy{kind: "chan", elem: &el}
	case *ast.FuncType:
		return lfTy{kind: "func"}
	}
	return lfTy{}
}

// field looks a field up in a struct of a scanned package, through embedded structs.
func (w *lfWorld) field(t lfTy, name string) (lfTy, bool) {
	p, ok := w.pkgs[t.pkg]
	if !ok {
		return lfTy{}, false
	}
	fs, ok := p.structs[t.name]
	if !ok {
		return lfTy{}, false
	}
	for _, f := range fs {
		if f.name == name {
			return w.typeOf(p, f.file, f.ty), true
		}
	}
	for _, f := range fs {
		if f.embedded {
			if r, ok := w.field(w.typeOf(p, f.file, f.ty), name); ok {
				return r, true
			}
		}
	}
	return lfTy{}, false
}

// method resolves T.name to function keys "pkg.T.name" (through embedding and interface dispatch).
func (w *lfWorld) method(t lfTy, name string, pos token.Pos) (keys []string, resolved bool) {
	p, ok := w.pkgs[t.pkg]
	if !ok {
		return nil, false
	}
	if p.ifaces[t.name] {
		impls, ok := lfIfaceImpl[t.key()]
		if !ok {
			w.errf(pos, "call of %s.%s through interface %s which has no dispatch entry (lfIfaceImpl)", t.name, name, t.key())
			return nil, true
		}
		for _, im := range impls {
			i := strings.Index(im, ".")
			ks, ok := w.method(lfTy{pkg: im[:i], name: im[i+1:]}, name, pos)
			if !ok || len(ks) == 0 {
				w.errf(pos, "%s does not implement %s.%s", im, t.key(), name)
			}
			keys = append(keys, ks...)
		}
		return keys, true
	}
	if _, ok := p.structs[t.name]; !ok {
		return nil, false
	}
	if _, ok := p.funcs[t.name+"."+name]; ok {
		return []string{p.key + "." + t.name + "." + name}, true
	}
	for _, f := range p.structs[t.name] {
		if f.embedded {
			if ks, ok := w.method(w.typeOf(p, f.file, f.ty), name, pos); ok && len(ks) > 0 {
				return ks, true
			}
		}
	}
	return nil, true // known struct, no such method (a func-typed field, e.g. createIterator)
}

// ---------------------------------------------------------------------------------------------
// per-function analysis

type lfHeld struct {
	name  string // "Struct.field" or "Func$var"
	excl  bool
	base  string // printed owner expression ("h" for h.reloadMu), "" for locals / context
	expr  string // printed lock expression
	deflt bool   // released by a deferred Unlock
	ctx   bool   // from lfCalledWith, or inferred from the call sites
	// inferred: every call site of this unexported method holds the lock of the object the method is
	// called on (see lfInfer); it protects the fields reached through the method's receiver only
	inferred bool
}

type lfRow struct {
	field, fn string
	write     bool
	locks     []lfLockMode
	init      bool
	pos       string
	order     int
}

type lfEvent struct {
	held    []lfHeld
	acquire string   // lock name, or ""
	callees []string // function / unit keys
	pos     token.Pos
}

type lfUnit struct {
	key    string // "pkg.Recv.Name" or "pkg.Recv.Name$1"
	short  string // without package
	pkg    *lfPkg
	file   *lfFile
	body   *ast.BlockStmt
	ftype  *ast.FuncType
	recv   *ast.FieldList
	env    map[string][]lfBinding // shared by a function and its closures
	init   bool
	ctx    []lfHeld
	owner  string // top-level function short name (names local mutexes)
	events []lfEvent
	direct map[string]bool // locks acquired directly
	nlit   *int
}

type lfBinding struct {
	from, to token.Pos
	t        lfTy
}

func (u *lfUnit) lookup(name string, pos token.Pos) (lfTy, bool) {
	best := -1
	for i, b := range u.env[name] {
		if b.from <= pos && pos <= b.to {
			if best < 0 || b.from > u.env[name][best].from || (b.from == u.env[name][best].from && b.t.known()) {
				best = i
			}
		}
	}
	if best < 0 {
		return lfTy{}, false
	}
	return u.env[name][best].t, true
}

type lfAn struct {
	w       *lfWorld
	units   map[string]*lfUnit
	order   []string
	rows    []lfRow
	chanOps []lfChanOp
	callsTo map[string][]lfCallSite // callee -> sites
	// early exits of a straight-line region: `if c { ...; x.Unlock(); return ... }` between x.Lock()
	// and the region's x.Unlock(): the Unlock statements recognised as such, and their returns
	earlyUnlock map[ast.Stmt]bool
	earlyReturn map[ast.Stmt]bool
}

// one send / receive on a channel that is a configured shared field, with the locks held
type lfChanOp struct {
	field, fn, kind string
	locks           []lfLockMode
	pos             string
}

type lfCallSite struct {
	held []lfHeld
	pos  token.Pos
	from string
	recv string // printed receiver expression of a method call ("h" for h.m()), "" otherwise
	isGo bool   // `go f()`: runs in another goroutine, none of the caller's locks protect it
}

func lfPrint(fset *token.FileSet, e ast.Node) string {
	var b bytes.Buffer
	printer.Fprint(&b, fset, e)
	return b.String()
}

func (a *lfAn) bind(u *lfUnit, name string, t lfTy, from, to token.Pos) {
	if name == "_" {
		return
	}
	u.env[name] = append(u.env[name], lfBinding{from, to, t})
}

func (a *lfAn) bindFieldList(u *lfUnit, fl *ast.FieldList, from, to token.Pos) {
	if fl == nil {
		return
	}
	for _, f := range fl.List {
		t := a.w.typeOf(u.pkg, u.file, f.Type)
		for _, n := range f.Names {
			a.bind(u, n.Name, t, from, to)
		}
	}
}

// results returns the result types of a resolvable callee.
func (a *lfAn) results(u *lfUnit, call *ast.CallExpr) []lfTy {
	if id, ok := call.Fun.(*ast.Ident); ok {
		if id.Name == "new" && len(call.Args) == 1 {
			return []lfTy{a.w.typeOf(u.pkg, u.file, call.Args[0])}
		}
		if id.Name == "make" && len(call.Args) >= 1 {
			return []lfTy{a.w.typeOf(u.pkg, u.file, call.Args[0])}
		}
	}
	if sel, ok := call.Fun.(*ast.SelectorExpr); ok {
		if id, ok := sel.X.(*ast.Ident); ok {
			if _, local := u.lookup(id.Name, id.Pos()); !local {
				if imp, ok := u.file.imports[id.Name]; ok {
					if _, scanned := a.w.pkgs[imp]; !scanned {
						return []lfTy{{pkg: imp, name: "<foreign>"}}
					}
				}
			}
		}
		if t := a.exprType(u, sel.X); a.w.foreign(t) {
			return []lfTy{{pkg: t.pkg, name: "<foreign>"}}
		}
	}
	if sel, ok := call.Fun.(*ast.SelectorExpr); ok {
		if t := a.exprType(u, sel.X); t.known() {
			if p, ok := a.w.pkgs[t.pkg]; ok && p.ifaces[t.name] {
				ft := p.imeth[t.name+"."+sel.Sel.Name]
				if ft == nil || ft.Results == nil {
					return nil
				}
				var out []lfTy
				for _, f := range ft.Results.List {
					rt := a.w.typeOf(p, p.imfile[t.name+"."+sel.Sel.Name], f.Type)
					n := len(f.Names)
					if n == 0 {
						n = 1
					}
					for j := 0; j < n; j++ {
						out = append(out, rt)
					}
				}
				return out
			}
		}
	}
	var out []lfTy
	for _, k := range a.resolveCall(u, call, false) {
		i := strings.Index(k, ".")
		p := a.w.pkgs[k[:i]]
		fd := p.funcs[k[i+1:]]
		if fd == nil || fd.Type.Results == nil {
			return nil
		}
		for _, f := range fd.Type.Results.List {
			t := a.w.typeOf(p, p.fnFile[k[i+1:]], f.Type)
			n := len(f.Names)
			if n == 0 {
				n = 1
			}
			for j := 0; j < n; j++ {
				out = append(out, t)
			}
		}
		return out
	}
	return nil
}

func (a *lfAn) exprType(u *lfUnit, e ast.Expr) lfTy {
	switch x := e.(type) {
	case *ast.Ident:
		if t, ok := u.lookup(x.Name, x.Pos()); ok {
			return t
		}
	case *ast.ParenExpr:
		return a.exprType(u, x.X)
	case *ast.StarExpr:
		return a.exprType(u, x.X)
	case *ast.UnaryExpr:
		if x.Op == token.AND {
			return a.exprType(u, x.X)
		}
		if x.Op == token.ARROW {
			if t := a.exprType(u, x.X); t.kind == "chan" && t.elem != nil {
				return *t.elem
			}
		}
	case *ast.SelectorExpr:
		t := a.exprType(u, x.X)
		if a.w.foreign(t) {
			return lfTy{pkg: t.pkg, name: "<foreign>"}
		}
		if t.known() {
			if ft, ok := a.w.field(t, x.Sel.Name); ok {
				return ft
			}
		}
	case *ast.IndexExpr:
		t := a.exprType(u, x.X)
		if (t.kind == "map" || t.kind == "slice") && t.elem != nil {
			return *t.elem
		}
	case *ast.SliceExpr:
		return a.exprType(u, x.X)
	case *ast.CompositeLit:
		if x.Type != nil {
			return a.w.typeOf(u.pkg, u.file, x.Type)
		}
	case *ast.TypeAssertExpr:
		if x.Type != nil {
			return a.w.typeOf(u.pkg, u.file, x.Type)
		}
	case *ast.CallExpr:
		if r := a.results(u, x); len(r) > 0 {
			return r[0]
		}
	}
	return lfTy{}
}

// bindLocals fills the environment of a top-level function (closures included). Every binding has
// its lexical extent: from the end of the declaring statement to the end of the innermost enclosing
// block / clause / if / for / switch / range / function literal.
func (a *lfAn) bindLocals(u *lfUnit) {
	for pass := 0; pass < 2; pass++ {
		a.bindFieldList(u, u.recv, u.body.Pos(), u.body.End())
		a.bindFieldList(u, u.ftype.Params, u.body.Pos(), u.body.End())
		a.bindFieldList(u, u.ftype.Results, u.body.Pos(), u.body.End())
		var stack []ast.Node
		scopeEnd := func() token.Pos {
			for i := len(stack) - 1; i >= 0; i-- {
				switch n := stack[i].(type) {
				case *ast.BlockStmt, *ast.CaseClause, *ast.CommClause, *ast.IfStmt, *ast.ForStmt,
					*ast.SwitchStmt, *ast.TypeSwitchStmt, *ast.RangeStmt, *ast.FuncLit, *ast.SelectStmt:
					return n.End()
				}
			}
			return u.body.End()
		}
		ast.Inspect(u.body, func(n ast.Node) bool {
			if n == nil {
				stack = stack[:len(stack)-1]
				return true
			}
			switch s := n.(type) {
			case *ast.FuncLit:
				a.bindFieldList(u, s.Type.Params, s.Body.Pos(), s.Body.End())
				a.bindFieldList(u, s.Type.Results, s.Body.Pos(), s.Body.End())
			case *ast.AssignStmt:
				if s.Tok != token.DEFINE {
					break
				}
				to := scopeEnd()
				if len(s.Lhs) == len(s.Rhs) {
					for i, l := range s.Lhs {
						if id, ok := l.(*ast.Ident); ok {
							a.bind(u, id.Name, a.exprType(u, s.Rhs[i]), s.End(), to)
						}
					}
				} else if len(s.Rhs) == 1 {
					var rs []lfTy
					switch r := s.Rhs[0].(type) {
					case *ast.CallExpr:
						rs = a.results(u, r)
					case *ast.IndexExpr: // v, ok := m[k]
						rs = []lfTy{a.exprType(u, r)}
					case *ast.TypeAssertExpr:
						rs = []lfTy{a.exprType(u, r)}
					case *ast.UnaryExpr: // v, ok := <-ch
						rs = []lfTy{a.exprType(u, r)}
					}
					for i, l := range s.Lhs {
						if id, ok := l.(*ast.Ident); ok {
							switch {
							case i < len(rs):
								a.bind(u, id.Name, rs[i], s.End(), to)
							case len(rs) == 1 && a.w.foreign(rs[0]):
								a.bind(u, id.Name, rs[0], s.End(), to)
							default:
								a.bind(u, id.Name, lfTy{}, s.End(), to)
							}
						}
					}
				}
			case *ast.ValueSpec:
				to := scopeEnd()
				for i, nm := range s.Names {
					if s.Type != nil {
						a.bind(u, nm.Name, a.w.typeOf(u.pkg, u.file, s.Type), s.End(), to)
					} else if i < len(s.Values) {
						a.bind(u, nm.Name, a.exprType(u, s.Values[i]), s.End(), to)
					} else {
						a.bind(u, nm.Name, lfTy{}, s.End(), to)
					}
				}
			case *ast.RangeStmt:
				if s.Tok == token.DEFINE {
					t := a.exprType(u, s.X)
					if id, ok := s.Value.(*ast.Ident); ok && s.Value != nil {
						vt := lfTy{}
						if t.elem != nil && (t.kind == "map" || t.kind == "slice") {
							vt = *t.elem
						}
						a.bind(u, id.Name, vt, s.Body.Pos(), s.Body.End())
					}
					if id, ok := s.Key.(*ast.Ident); ok && s.Key != nil {
						kt := lfTy{}
						if t.kind == "chan" && t.elem != nil {
							kt = *t.elem
						}
						a.bind(u, id.Name, kt, s.Body.Pos(), s.Body.End())
					}
				}
			case *ast.TypeSwitchStmt:
				if as, ok := s.Assign.(*ast.AssignStmt); ok && len(as.Lhs) == 1 {
					if id, ok := as.Lhs[0].(*ast.Ident); ok {
						a.bind(u, id.Name, lfTy{}, s.Pos(), s.End())
					}
				}
			}
			stack = append(stack, n)
			return true
		})
	}
}

// resolveCall maps a call to the keys of the functions it may enter (empty: outside the scanned
// packages, a builtin, a conversion or a function value).
func (a *lfAn) resolveCall(u *lfUnit, call *ast.CallExpr, report bool) []string {
	switch f := call.Fun.(type) {
	case *ast.ParenExpr:
		c2 := *call
		c2.Fun = f.X
		return a.resolveCall(u, &c2, report)
	case *ast.Ident:
		if _, local := u.lookup(f.Name, f.Pos()); local {
			return nil // function value
		}
		if _, ok := u.pkg.funcs[f.Name]; ok {
			return []string{u.pkg.key + "." + f.Name}
		}
	case *ast.SelectorExpr:
		if id, ok := f.X.(*ast.Ident); ok {
			if _, local := u.lookup(id.Name, id.Pos()); !local {
				if imp, ok := u.file.imports[id.Name]; ok {
					if p, ok := a.w.pkgs[imp]; ok {
						if _, ok := p.funcs[f.Sel.Name]; ok {
							return []string{imp + "." + f.Sel.Name}
						}
					}
					return nil
				}
			}
		}
		t := a.exprType(u, f.X)
		if !t.known() {
			if report {
				a.unresolved(u, call, f)
			}
			return nil
		}
		var pos token.Pos
		if report {
			pos = call.Pos()
		}
		if report {
			ks, _ := a.w.method(t, f.Sel.Name, pos)
			return ks
		}
		// silent variant (used for typing only)
		saved := len(a.w.errs)
		ks, _ := a.w.method(t, f.Sel.Name, pos)
		a.w.errs = a.w.errs[:saved]
		return ks
	}
	return nil
}

// a method call on a receiver of unknown type: an error if some scanned function of that name
// acquires locks (the edge could be missed), otherwise ignored.
type lfUnres struct {
	name string
	pos  token.Pos
	unit string
}

var lfUnresolvedCalls []lfUnres

func (a *lfAn) unresolved(u *lfUnit, call *ast.CallExpr, f *ast.SelectorExpr) {
	lfUnresolvedCalls = append(lfUnresolvedCalls, lfUnres{f.Sel.Name, call.Pos(), u.key})
}

// configured paths of a struct type
func lfPathsOf(t lfTy) []lfField {
	var out []lfField
	for _, f := range lfShared {
		if f.pkg == t.pkg && f.strct == t.name {
			out = append(out, f)
		}
	}
	return out
}

func lfFieldNamesOf(pkg string) map[string]bool {
	m := map[string]bool{}
	for _, f := range lfShared {
		if f.pkg == pkg {
			for _, s := range f.path {
				m[s] = true
			}
		}
	}
	return m
}

// chain flattens a selector expression to (root expression, names).
func lfChain(e ast.Expr) (ast.Expr, []string, []*ast.SelectorExpr) {
	var names []string
	var sels []*ast.SelectorExpr
	for {
		switch x := e.(type) {
		case *ast.SelectorExpr:
			names = append([]string{x.Sel.Name}, names...)
			sels = append([]*ast.SelectorExpr{x}, sels...)
			e = x.X
			continue
		case *ast.ParenExpr:
			e = x.X
			continue
		}
		break
	}
	return e, names, sels
}

type lfAccess struct {
	fld   lfField
	base  string
	write bool
	pos   token.Pos
}

// matchSelector reports the shared-field accesses denoted by selector expression e, which is NOT
// the X of an enclosing selector (isTerminal) or is (then only complete paths ending at e count).
func (a *lfAn) matchSelector(u *lfUnit, e *ast.SelectorExpr) (hits []lfField, base string, consumed bool) {
	root, names, sels := lfChain(e)
	// type at each position
	t := a.exprType(u, root)
	cfgNames := lfFieldNamesOf(u.pkg.key)
	cur := t
	for i := 0; i < len(names); i++ {
		if !cur.known() {
			// unresolved receiver: fail closed if the remaining names could denote a shared field
			for _, n := range names[i:] {
				if cfgNames[n] {
					a.w.errf(e.Pos(), "cannot resolve the type of %q; selector %s may denote a shared field",
						lfPrint(a.w.fset, root), lfPrint(a.w.fset, e))
					return nil, "", true
				}
			}
			return nil, "", false
		}
		rest := names[i:]
		for _, f := range lfPathsOf(cur) {
			if len(f.path) == len(rest) && lfEqStrs(f.path, rest) {
				b := lfPrint(a.w.fset, root)
				if i > 0 {
					b = lfPrint(a.w.fset, sels[i-1])
				}
				return []lfField{f}, b, true
			}
			// whole-struct access: rest is a strict prefix of the path
			if len(rest) < len(f.path) && lfEqStrs(f.path[:len(rest)], rest) {
				b := lfPrint(a.w.fset, root)
				if i > 0 {
					b = lfPrint(a.w.fset, sels[i-1])
				}
				hits = append(hits, f)
				base = b
			}
		}
		if len(hits) > 0 {
			return hits, base, true
		}
		nt, ok := a.w.field(cur, names[i])
		if !ok {
			return nil, "", false
		}
		cur = nt
	}
	return nil, "", false
}

func lfEqStrs(a, b []string) bool {
	if len(a) != len(b) {
		return false
	}
	for i := range a {
		if a[i] != b[i] {
			return false
		}
	}
	return true
}

func (a *lfAn) emit(u *lfUnit, f lfField, base string, write bool, init bool, held []lfHeld, pos token.Pos) {
	var locks []lfLockMode
	seen := map[string]int{}
	for _, h := range held {
		if (!h.ctx || h.inferred) && h.base != base {
			continue // a lock of another object does not protect this object's field
		}
		if i, ok := seen[h.name]; ok {
			locks[i].excl = locks[i].excl || h.excl
			continue
		}
		seen[h.name] = len(locks)
		locks = append(locks, lfLockMode{h.name, h.excl})
	}
	p := a.w.fset.Position(pos)
	a.rows = append(a.rows, lfRow{
		field: f.strct + "." + strings.Join(f.path, "."), fn: u.short, write: write, locks: locks,
		init: init, pos: fmt.Sprintf("%s:%d", p.Filename, p.Line), order: len(a.rows),
	})
}

// chanOp records a send or receive on a channel expression that is a configured shared field
func (a *lfAn) chanOp(u *lfUnit, ch ast.Expr, kind string, held []lfHeld) {
	se, ok := ch.(*ast.SelectorExpr)
	if !ok {
		return
	}
	hits, base, _ := a.matchSelector(u, se)
	for _, f := range hits {
		var locks []lfLockMode
		seen := map[string]int{}
		for _, h := range held {
			if (!h.ctx || h.inferred) && h.base != base {
				continue
			}
			if i, ok := seen[h.name]; ok {
				locks[i].excl = locks[i].excl || h.excl
				continue
			}
			seen[h.name] = len(locks)
			locks = append(locks, lfLockMode{h.name, h.excl})
		}
		p := a.w.fset.Position(ch.Pos())
		a.chanOps = append(a.chanOps, lfChanOp{field: f.strct + "." + strings.Join(f.path, "."), fn: u.short, kind: kind,
			locks: locks, pos: fmt.Sprintf("%s:%d", p.Filename, p.Line)})
	}
}

// expr walks an expression. mode: 'r' read, 'w' write (assignment target / inc-dec operand).
func (a *lfAn) expr(u *lfUnit, e ast.Expr, mode byte, held []lfHeld) {
	switch x := e.(type) {
	case nil:
		return
	case *ast.BadExpr:
		a.w.errf(x.Pos(), "bad expression")
	case *ast.Ident, *ast.BasicLit:
		return
	case *ast.Ellipsis:
		a.expr(u, x.Elt, 'r', held)
	case *ast.FuncLit:
		k := a.closure(u, x, false)
		u.events = append(u.events, lfEvent{held: held, callees: []string{k}, pos: x.Pos()})
	case *ast.CompositeLit:
		t := lfTy{}
		if x.Type != nil {
			t = a.w.typeOf(u.pkg, u.file, x.Type)
		}
		paths := lfPathsOf(t)
		for _, el := range x.Elts {
			kv, isKV := el.(*ast.KeyValueExpr)
			if len(paths) > 0 && !isKV {
				a.w.errf(el.Pos(), "unkeyed literal of shared struct %s", t.key())
				continue
			}
			if isKV {
				matched := false
				if id, ok := kv.Key.(*ast.Ident); ok && len(paths) > 0 {
					for _, f := range paths {
						if f.path[0] == id.Name {
							// initialisation of a fresh, not yet shared object
							a.emit(u, f, "", true, true, nil, kv.Pos())
							matched = true
						}
					}
				}
				if !matched {
					a.expr(u, kv.Key, 'r', held)
				}
				a.expr(u, kv.Value, 'r', held)
			} else {
				a.expr(u, el, 'r', held)
			}
		}
	case *ast.ParenExpr:
		a.expr(u, x.X, mode, held)
	case *ast.SelectorExpr:
		hits, base, consumed := a.matchSelector(u, x)
		for _, f := range hits {
			a.emit(u, f, base, mode == 'w', u.init, held, x.Pos())
		}
		if consumed {
			// still walk the root (it may contain calls / indexes)
			root, _, _ := lfChain(x)
			a.expr(u, root, 'r', held)
			return
		}
		// a selector that is not itself a shared access: inner prefixes are walked as NON-terminal
		a.exprNonTerminal(u, x.X, held)
	case *ast.IndexExpr:
		// m[k] = v / s[i]++ write THROUGH the field: the container is written
		a.expr(u, x.X, mode, held)
		a.expr(u, x.Index, 'r', held)
	case *ast.SliceExpr:
		a.expr(u, x.X, mode, held)
		a.expr(u, x.Low, 'r', held)
		a.expr(u, x.High, 'r', held)
		a.expr(u, x.Max, 'r', held)
	case *ast.TypeAssertExpr:
		a.expr(u, x.X, 'r', held)
	case *ast.StarExpr:
		a.expr(u, x.X, mode, held)
	case *ast.UnaryExpr:
		if x.Op == token.AND {
			if s, ok := x.X.(*ast.SelectorExpr); ok {
				if hits, _, _ := a.matchSelector(u, s); len(hits) > 0 {
					a.w.errf(x.Pos(), "address of shared field %s taken (aliasing is not tracked)", lfPrint(a.w.fset, s))
					return
				}
			}
		}
		if x.Op == token.ARROW {
			a.chanOp(u, x.X, "recv", held)
		}
		a.expr(u, x.X, 'r', held)
	case *ast.BinaryExpr:
		a.expr(u, x.X, 'r', held)
		a.expr(u, x.Y, 'r', held)
	case *ast.KeyValueExpr:
		a.expr(u, x.Key, 'r', held)
		a.expr(u, x.Value, 'r', held)
	case *ast.CallExpr:
		a.call(u, x, held, false)
	case *ast.ArrayType, *ast.MapType, *ast.ChanType, *ast.FuncType, *ast.StructType, *ast.InterfaceType:
		return
	default:
		a.w.errf(e.Pos(), "unrecognised expression %T", e)
	}
}

// exprNonTerminal walks X of a selector X.sel that did not match: X may still contain a complete
// shared path (h.dnsdb in h.dnsdb.Reload) but a strict prefix (h.dbConfig in h.dbConfig.Driver)
// is not a whole-struct access.
func (a *lfAn) exprNonTerminal(u *lfUnit, e ast.Expr, held []lfHeld) {
	if s, ok := e.(*ast.SelectorExpr); ok {
		hits, base, _ := a.matchSelector(u, s)
		_, names, _ := lfChain(s)
		complete := false
		for _, f := range hits {
			if len(f.path) <= len(names) && lfEqStrs(f.path, names[len(names)-len(f.path):]) {
				a.emit(u, f, base, false, u.init, held, s.Pos())
				complete = true
			}
		}
		if complete {
			root, _, _ := lfChain(s)
			a.expr(u, root, 'r', held)
			return
		}
		a.exprNonTerminal(u, s.X, held)
		return
	}
	a.expr(u, e, 'r', held)
}

func (a *lfAn) call(u *lfUnit, c *ast.CallExpr, held []lfHeld, isGo bool) {
	// builtins with a written first argument
	if id, ok := c.Fun.(*ast.Ident); ok {
		if _, shadow := u.lookup(id.Name, id.Pos()); !shadow {
			switch id.Name {
			case "delete", "copy", "clear":
				for i, arg := range c.Args {
					if i == 0 {
						a.expr(u, arg, 'w', held)
					} else {
						a.expr(u, arg, 'r', held)
					}
				}
				return
			case "close":
				for _, arg := range c.Args {
					a.expr(u, arg, 'r', held) // channel operation: synchronising
				}
				return
			}
		}
	}
	// the callee expression: x.f.M(...) reads x.f (or, for callsMutate fields, writes the object)
	switch f := c.Fun.(type) {
	case *ast.SelectorExpr:
		if s, ok := f.X.(*ast.SelectorExpr); ok {
			hits, base, _ := a.matchSelector(u, s)
			_, names, _ := lfChain(s)
			done := false
			for _, h := range hits {
				if len(h.path) <= len(names) && lfEqStrs(h.path, names[len(names)-len(h.path):]) {
					a.emit(u, h, base, h.callsMutate, u.init, held, s.Pos())
					done = true
				}
			}
			if done {
				root, _, _ := lfChain(s)
				a.expr(u, root, 'r', held)
			} else {
				a.exprNonTerminal(u, f.X, held)
			}
		} else {
			a.expr(u, f.X, 'r', held)
		}
	case *ast.FuncLit:
		k := a.closure(u, f, isGo)
		if !isGo {
			u.events = append(u.events, lfEvent{held: held, callees: []string{k}, pos: f.Pos()})
		}
	default:
		a.expr(u, c.Fun, 'r', held)
	}
	for _, arg := range c.Args {
		if fl, ok := arg.(*ast.FuncLit); ok && a.isWrapperCall(u, c, isGo) {
			_ = fl
			continue // analysed below with the wrapper's lock held
		}
		a.expr(u, arg, 'r', held)
	}
	recv := ""
	if f, ok := c.Fun.(*ast.SelectorExpr); ok {
		recv = lfPrint(a.w.fset, f.X)
	}
	// x.withLock(func() { ... }): the literal runs with x's lock held by the wrapper
	wrapped := map[ast.Expr]bool{}
	if fsel, ok := c.Fun.(*ast.SelectorExpr); ok && !isGo && len(c.Args) == 1 {
		if fl, ok := c.Args[0].(*ast.FuncLit); ok {
			if ks := a.resolveCall(u, c, false); len(ks) == 1 {
				if wr, ok := lfWrappers[ks[0]]; ok {
					_ = fsel
					h := lfHeld{name: wr.typ + "." + wr.field, excl: wr.excl, base: recv, expr: recv + "." + wr.field, ctx: true, inferred: true}
					k := a.closureCtx(u, fl, []lfHeld{h})
					u.events = append(u.events, lfEvent{held: lfClone(held, h), callees: []string{k}, pos: fl.Pos()})
					wrapped[c.Args[0]] = true
				}
			}
		}
	}
	if isGo {
		// runs in another goroutine: holds none of our locks
		if _, isLit := c.Fun.(*ast.FuncLit); !isLit {
			for _, k := range a.resolveCall(u, c, false) {
				a.callsTo[k] = append(a.callsTo[k], lfCallSite{pos: c.Pos(), from: u.key, recv: recv, isGo: true})
			}
		}
		return
	}
	if _, isLit := c.Fun.(*ast.FuncLit); isLit {
		return
	}
	ks := a.resolveCall(u, c, true)
	if len(ks) > 0 {
		u.events = append(u.events, lfEvent{held: held, callees: ks, pos: c.Pos()})
		for _, k := range ks {
			a.callsTo[k] = append(a.callsTo[k], lfCallSite{held: held, pos: c.Pos(), from: u.key, recv: recv})
		}
	}
}

func (a *lfAn) closure(u *lfUnit, f *ast.FuncLit, isGo bool) string {
	return a.closureCtx(u, f, nil)
}

// closureCtx analyses a function literal; ctx = the locks a lock-wrapper helper holds while it
// runs the literal (see lfFindWrappers), nil for every other literal
func (a *lfAn) closureCtx(u *lfUnit, f *ast.FuncLit, ctx []lfHeld) string {
	*u.nlit++
	k := fmt.Sprintf("%s$%d", u.pkg.key+"."+u.owner, *u.nlit)
	c := &lfUnit{key: k, short: fmt.Sprintf("%s$%d", u.owner, *u.nlit), pkg: u.pkg, file: u.file,
		body: f.Body, ftype: f.Type, env: u.env, owner: u.owner, nlit: u.nlit, direct: map[string]bool{}, ctx: ctx}
	// a closure never inherits the lock set or the init phase (conservative)
	a.units[k] = c
	a.order = append(a.order, k)
	a.fnBody(c)
	return k
}

// lockCall recognises  X.Lock() / X.RLock() / X.Unlock() / X.RUnlock()  on a sync mutex.
func (a *lfAn) lockCall(u *lfUnit, e ast.Expr) (h lfHeld, unlock bool, ok bool) {
	c, isCall := e.(*ast.CallExpr)
	if !isCall || len(c.Args) != 0 {
		return
	}
	s, isSel := c.Fun.(*ast.SelectorExpr)
	if !isSel {
		return
	}
	var excl bool
	switch s.Sel.Name {
	case "Lock":
		excl = true
	case "RLock":
	case "Unlock":
		excl, unlock = true, true
	case "RUnlock":
		unlock = true
	default:
		return
	}
	t := a.exprType(u, s.X)
	if !t.known() {
		a.w.errf(c.Pos(), "%s: cannot resolve the type of the receiver (is it a mutex?)", lfPrint(a.w.fset, c))
		return lfHeld{}, false, false
	}
	rw, isM := t.isMutex()
	if !isM {
		return lfHeld{}, false, false
	}
	if !rw && !excl {
		a.w.errf(c.Pos(), "RLock on a plain Mutex")
	}
	h = lfHeld{excl: excl, expr: lfPrint(a.w.fset, s.X)}
	switch x := s.X.(type) {
	case *ast.SelectorExpr:
		bt := a.exprType(u, x.X)
		if !bt.known() {
			a.w.errf(c.Pos(), "cannot resolve the owner of lock %s", h.expr)
			return lfHeld{}, false, false
		}
		h.name = bt.name + "." + x.Sel.Name
		h.base = lfPrint(a.w.fset, x.X)
	case *ast.Ident:
		h.name = u.owner + "$" + x.Name
	default:
		a.w.errf(c.Pos(), "unrecognised lock expression %s", h.expr)
		return lfHeld{}, false, false
	}
	return h, unlock, true
}

func (a *lfAn) stmtLock(u *lfUnit, s ast.Stmt) (lfHeld, bool, bool) {
	if es, ok := s.(*ast.ExprStmt); ok {
		return a.lockCall(u, es.X)
	}
	return lfHeld{}, false, false
}

func (a *lfAn) deferUnlock(u *lfUnit, s ast.Stmt) (lfHeld, bool) {
	if ds, ok := s.(*ast.DeferStmt); ok {
		if h, unlock, ok := a.lockCall(u, ds.Call); ok && unlock {
			return h, true
		}
		// defer func() { x.Unlock() }()
		if fl, ok := ds.Call.Fun.(*ast.FuncLit); ok && len(ds.Call.Args) == 0 && len(fl.Body.List) == 1 {
			if es, ok := fl.Body.List[0].(*ast.ExprStmt); ok {
				if h, unlock, ok := a.lockCall(u, es.X); ok && unlock {
					return h, true
				}
			}
		}
	}
	return lfHeld{}, false
}

func lfEndsInReturn(list []ast.Stmt) bool {
	if len(list) == 0 {
		return false
	}
	_, ok := list[len(list)-1].(*ast.ReturnStmt)
	return ok
}

// escapes reports a statement inside a straight-line Lock…Unlock region that can leave the region
// without passing the Unlock.
func (a *lfAn) escapes(list []ast.Stmt) (token.Pos, string) {
	var pos token.Pos
	var what string
	var walk func(n ast.Node, loop, brk int)
	walk = func(n ast.Node, loop, brk int) {
		if n == nil || what != "" {
			return
		}
		switch s := n.(type) {
		case *ast.FuncLit:
			return
		case *ast.ReturnStmt:
			if a.earlyReturn[s] {
				return // preceded by the region's own Unlock (markEarlyExits)
			}
			pos, what = s.Pos(), "return"
			return
		case *ast.BranchStmt:
			switch {
			case s.Tok == token.GOTO || s.Label != nil:
				pos, what = s.Pos(), s.Tok.String()+" with label"
			case s.Tok == token.BREAK && brk == 0:
				pos, what = s.Pos(), "break"
			case s.Tok == token.CONTINUE && loop == 0:
				pos, what = s.Pos(), "continue"
			}
			return
		case *ast.ForStmt:
			walk(s.Body, loop+1, brk+1)
			return
		case *ast.RangeStmt:
			walk(s.Body, loop+1, brk+1)
			return
		case *ast.SwitchStmt:
			walk(s.Body, loop, brk+1)
			return
		case *ast.TypeSwitchStmt:
			walk(s.Body, loop, brk+1)
			return
		case *ast.SelectStmt:
			walk(s.Body, loop, brk+1)
			return
		}
		ast.Inspect(n, func(m ast.Node) bool {
			if m == n {
				return true
			}
			if m == nil {
				return false
			}
			switch m.(type) {
			case ast.Stmt, *ast.FuncLit:
				walk(m, loop, brk)
				return false
			}
			return true
		})
	}
	for _, s := range list {
		walk(s, 0, 0)
	}
	return pos, what
}

// markEarlyExits finds, inside the straight-line region of lock h, the statement lists that end in
// `h.Unlock(); return ...` (an early exit that releases the lock itself) and records both statements.
// Lists inside function literals are not looked at.
func (a *lfAn) markEarlyExits(u *lfUnit, region []ast.Stmt, h lfHeld) {
	if a.earlyUnlock == nil {
		a.earlyUnlock, a.earlyReturn = map[ast.Stmt]bool{}, map[ast.Stmt]bool{}
	}
	check := func(list []ast.Stmt) {
		n := len(list)
		if n < 2 {
			return
		}
		ret, ok := list[n-1].(*ast.ReturnStmt)
		if !ok {
			return
		}
		if h2, un, ok := a.stmtLock(u, list[n-2]); ok && un && h2.expr == h.expr && h2.excl == h.excl {
			a.earlyUnlock[list[n-2]] = true
			a.earlyReturn[ret] = true
		}
	}
	for _, s := range region {
		ast.Inspect(s, func(n ast.Node) bool {
			switch x := n.(type) {
			case *ast.FuncLit:
				return false
			case *ast.BlockStmt:
				check(x.List)
			case *ast.CaseClause:
				check(x.Body)
			case *ast.CommClause:
				check(x.Body)
			}
			return true
		})
	}
}

func lfClone(h []lfHeld, extra ...lfHeld) []lfHeld {
	out := make([]lfHeld, 0, len(h)+len(extra))
	out = append(out, h...)
	return append(out, extra...)
}

func (a *lfAn) acquire(u *lfUnit, h lfHeld, held []lfHeld, pos token.Pos) {
	u.direct[h.name] = true
	u.events = append(u.events, lfEvent{held: held, acquire: h.name, pos: pos})
}

// block processes one statement list; it returns the lock set at its end (deferred locks stay).
func (a *lfAn) block(u *lfUnit, list []ast.Stmt, held []lfHeld, nested bool) []lfHeld {
	for i := 0; i < len(list); i++ {
		s := list[i]
		if h, unlock, ok := a.stmtLock(u, s); ok {
			if unlock {
				if a.earlyUnlock[s] {
					// early exit of an enclosing straight-line region: the lock is released here, the
					// `return` that follows runs without it
					var rest []lfHeld
					for _, o := range held {
						if o.expr != h.expr || o.ctx {
							rest = append(rest, o)
						}
					}
					held = rest
					continue
				}
				a.w.errf(s.Pos(), "%s without a matching Lock earlier in the same block", lfPrint(a.w.fset, s))
				continue
			}
			for _, o := range held {
				if o.expr == h.expr && (!o.ctx || o.inferred) {
					a.w.errf(s.Pos(), "%s acquired while already held (self-deadlock or recursive RLock)", h.expr)
				}
			}
			a.acquire(u, h, held, s.Pos())
			if i+1 < len(list) {
				if d, ok := a.deferUnlock(u, list[i+1]); ok {
					if d.expr != h.expr || d.excl != h.excl {
						a.w.errf(list[i+1].Pos(), "deferred unlock does not match %s", lfPrint(a.w.fset, s))
					}
					if nested && !lfEndsInReturn(list) {
						a.w.errf(s.Pos(), "Lock+defer Unlock in a nested block that does not end in return")
					}
					h.deflt = true
					held = lfClone(held, h)
					i++
					continue
				}
			}
			j := -1
			for k := i + 1; k < len(list); k++ {
				if h2, un, ok := a.stmtLock(u, list[k]); ok && un && h2.expr == h.expr {
					if h2.excl != h.excl {
						a.w.errf(list[k].Pos(), "unlock mode does not match %s", lfPrint(a.w.fset, s))
					}
					j = k
					break
				}
			}
			if j < 0 {
				a.w.errf(s.Pos(), "%s has neither an adjacent deferred unlock nor an unlock in the same block", lfPrint(a.w.fset, s))
				continue
			}
			a.markEarlyExits(u, list[i+1:j], h)
			if p, what := a.escapes(list[i+1 : j]); what != "" {
				a.w.errf(p, "%s inside the straight-line region of %s", what, h.expr)
			}
			inner := a.block(u, list[i+1:j], lfClone(held, h), nested)
			for _, x := range inner {
				if x.deflt {
					found := false
					for _, o := range held {
						if o.expr == x.expr {
							found = true
						}
					}
					if !found {
						a.w.errf(s.Pos(), "deferred lock %s taken inside the straight-line region of %s", x.expr, h.expr)
					}
				}
			}
			i = j
			continue
		}
		if _, ok := a.deferUnlock(u, s); ok {
			a.w.errf(s.Pos(), "deferred unlock not directly after its Lock")
			continue
		}
		a.stmt(u, s, held)
	}
	return held
}

func (a *lfAn) stmt(u *lfUnit, s ast.Stmt, held []lfHeld) {
	switch x := s.(type) {
	case nil:
	case *ast.EmptyStmt, *ast.BranchStmt:
	case *ast.BlockStmt:
		a.block(u, x.List, held, true)
	case *ast.LabeledStmt:
		a.stmt(u, x.Stmt, held)
	case *ast.ExprStmt:
		a.expr(u, x.X, 'r', held)
	case *ast.SendStmt:
		a.chanOp(u, x.Chan, "send", held)
		a.expr(u, x.Chan, 'r', held)
		a.expr(u, x.Value, 'r', held)
	case *ast.IncDecStmt:
		a.expr(u, x.X, 'w', held)
	case *ast.AssignStmt:
		for _, r := range x.Rhs {
			a.expr(u, r, 'r', held)
		}
		for _, l := range x.Lhs {
			if x.Tok == token.DEFINE {
				if _, ok := l.(*ast.Ident); ok {
					continue
				}
			}
			a.expr(u, l, 'w', held)
		}
	case *ast.GoStmt:
		a.call(u, x.Call, held, true)
	case *ast.DeferStmt:
		// runs at function exit: only the locks released by EARLIER-registered defers are held
		var dh []lfHeld
		for _, h := range held {
			if h.deflt || h.ctx {
				dh = append(dh, h)
			}
		}
		if fl, ok := x.Call.Fun.(*ast.FuncLit); ok {
			k := a.closure(u, fl, false)
			u.events = append(u.events, lfEvent{held: dh, callees: []string{k}, pos: x.Pos()})
			for _, arg := range x.Call.Args {
				a.expr(u, arg, 'r', held)
			}
		} else {
			a.call(u, x.Call, dh, false)
		}
	case *ast.ReturnStmt:
		for _, r := range x.Results {
			a.expr(u, r, 'r', held)
		}
	case *ast.DeclStmt:
		if gd, ok := x.Decl.(*ast.GenDecl); ok {
			for _, sp := range gd.Specs {
				if vs, ok := sp.(*ast.ValueSpec); ok {
					for _, v := range vs.Values {
						a.expr(u, v, 'r', held)
					}
				}
			}
		}
	case *ast.IfStmt:
		a.stmt(u, x.Init, held)
		a.expr(u, x.Cond, 'r', held)
		a.block(u, x.Body.List, held, true)
		a.stmt(u, x.Else, held)
	case *ast.ForStmt:
		a.stmt(u, x.Init, held)
		a.expr(u, x.Cond, 'r', held)
		a.stmt(u, x.Post, held)
		a.block(u, x.Body.List, held, true)
	case *ast.RangeStmt:
		a.expr(u, x.X, 'r', held)
		if x.Tok != token.DEFINE {
			a.expr(u, x.Key, 'w', held)
			a.expr(u, x.Value, 'w', held)
		}
		a.block(u, x.Body.List, held, true)
	case *ast.SwitchStmt:
		a.stmt(u, x.Init, held)
		a.expr(u, x.Tag, 'r', held)
		a.block(u, x.Body.List, held, true)
	case *ast.TypeSwitchStmt:
		a.stmt(u, x.Init, held)
		a.stmt(u, x.Assign, held)
		a.block(u, x.Body.List, held, true)
	case *ast.SelectStmt:
		a.block(u, x.Body.List, held, true)
	case *ast.CaseClause:
		for _, e := range x.List {
			a.expr(u, e, 'r', held)
		}
		a.block(u, x.Body, held, true)
	case *ast.CommClause:
		a.stmt(u, x.Comm, held)
		a.block(u, x.Body, held, true)
	default:
		a.w.errf(s.Pos(), "unrecognised statement %T", s)
	}
}

// fnBody analyses one unit and checks that every Lock/Unlock call in it was recognised.
func (a *lfAn) fnBody(u *lfUnit) {
	before := 0
	for _, e := range u.events {
		if e.acquire != "" {
			before++
		}
	}
	a.block(u, u.body.List, lfClone(u.ctx), false)
	// sanity sweep: count syntactic Lock/RLock calls of this unit (closures excluded)
	n := 0
	var sweep func(node ast.Node) bool
	sweep = func(node ast.Node) bool {
		switch c := node.(type) {
		case *ast.FuncLit:
			return false
		case *ast.CallExpr:
			if _, unlock, ok := a.lockCall(u, c); ok && !unlock {
				n++
			}
		}
		return true
	}
	for _, s := range u.body.List {
		ast.Inspect(s, sweep)
	}
	got := 0
	for _, e := range u.events {
		if e.acquire != "" {
			got++
		}
	}
	if got-before != n {
		a.w.errf(u.body.Pos(), "%s: %d Lock/RLock calls but %d recognised lock regions (a Lock in an unsupported position)", u.key, n, got-before)
	}
}

// ---------------------------------------------------------------------------------------------
// whole-program part: expectations check, may-acquire summary, lock-order edges, Lean output

// lock-wrapper helpers: a method `func (x *T) withLock(fn func()) { x.mu.Lock(); defer x.mu.Unlock(); fn() }`
// (or Lock; fn(); Unlock, or the RLock forms). A function literal passed to it runs with x.mu held.
type lfWrapper struct {
	typ, field string
	excl       bool
}

var lfWrappers = map[string]lfWrapper{}

func lfFindWrappers(w *lfWorld) {
	lfWrappers = map[string]lfWrapper{}
	for _, pc := range lfPackages {
		p := w.pkgs[pc.key]
		for _, lf := range p.files {
			for _, d := range lf.f.Decls {
				fd, ok := d.(*ast.FuncDecl)
				if !ok || fd.Body == nil || fd.Recv == nil {
					continue
				}
				rn := lfRecvName(fd)
				ps := fd.Type.Params
				if rn == "" || ps == nil || len(ps.List) != 1 || len(ps.List[0].Names) != 1 {
					continue
				}
				ft, ok := ps.List[0].Type.(*ast.FuncType)
				if !ok || (ft.Params != nil && len(ft.Params.List) > 0) || (ft.Results != nil && len(ft.Results.List) > 0) {
					continue
				}
				pn := ps.List[0].Names[0].Name
				// x.<field>.<op>()
				lockOp := func(e ast.Expr) (field, op string) {
					c, ok := e.(*ast.CallExpr)
					if !ok || len(c.Args) != 0 {
						return
					}
					s1, ok := c.Fun.(*ast.SelectorExpr)
					if !ok {
						return
					}
					s2, ok := s1.X.(*ast.SelectorExpr)
					if !ok {
						return
					}
					if id, ok := s2.X.(*ast.Ident); !ok || id.Name != rn {
						return
					}
					return s2.Sel.Name, s1.Sel.Name
				}
				callsParam := func(st ast.Stmt) bool {
					es, ok := st.(*ast.ExprStmt)
					if !ok {
						return false
					}
					c, ok := es.X.(*ast.CallExpr)
					if !ok || len(c.Args) != 0 {
						return false
					}
					id, ok := c.Fun.(*ast.Ident)
					return ok && id.Name == pn
				}
				b := fd.Body.List
				if len(b) != 3 {
					continue
				}
				es0, ok := b[0].(*ast.ExprStmt)
				if !ok {
					continue
				}
				f0, op0 := lockOp(es0.X)
				if op0 != "Lock" && op0 != "RLock" {
					continue
				}
				want := map[string]string{"Lock": "Unlock", "RLock": "RUnlock"}[op0]
				okShape := false
				if ds, ok := b[1].(*ast.DeferStmt); ok && callsParam(b[2]) {
					if f1, op1 := lockOp(ds.Call); f1 == f0 && op1 == want {
						okShape = true
					}
				}
				if es2, ok := b[2].(*ast.ExprStmt); ok && callsParam(b[1]) {
					if f1, op1 := lockOp(es2.X); f1 == f0 && op1 == want {
						okShape = true
					}
				}
				if !okShape {
					continue
				}
				short := lfFuncKey(fd)
				typ := short
				if i := strings.Index(short, "."); i >= 0 {
					typ = short[:i]
				}
				lfWrappers[p.key+"."+short] = lfWrapper{typ: typ, field: f0, excl: op0 == "Lock"}
			}
		}
	}
}

func (a *lfAn) isWrapperCall(u *lfUnit, c *ast.CallExpr, isGo bool) bool {
	if _, ok := c.Fun.(*ast.SelectorExpr); !ok || isGo || len(c.Args) != 1 {
		return false
	}
	if ks := a.resolveCall(u, c, false); len(ks) == 1 {
		_, ok := lfWrappers[ks[0]]
		return ok
	}
	return false
}

// lfInferred: unit key -> locks of the receiver object that every call site holds (computed by
// lfInfer from the previous analysis round; empty in the first round)
var lfInferred = map[string][]lfLockMode{}

func lfRecvName(fd *ast.FuncDecl) string {
	if fd.Recv != nil && len(fd.Recv.List) == 1 && len(fd.Recv.List[0].Names) == 1 {
		return fd.Recv.List[0].Names[0].Name
	}
	return ""
}

// lfAnalyse runs the per-function analysis over every scanned package
func lfAnalyse(w *lfWorld) *lfAn {
	a := &lfAn{w: w, units: map[string]*lfUnit{}, callsTo: map[string][]lfCallSite{}}
	for _, pc := range lfPackages {
		p := w.pkgs[pc.key]
		for _, lf := range p.files {
			for _, d := range lf.f.Decls {
				fd, ok := d.(*ast.FuncDecl)
				if !ok || fd.Body == nil {
					continue
				}
				short := lfFuncKey(fd)
				key := p.key + "." + short
				n := 0
				u := &lfUnit{key: key, short: short, pkg: p, file: lf, body: fd.Body, ftype: fd.Type, recv: fd.Recv,
					env: map[string][]lfBinding{}, init: lfInitFns[key], owner: short, nlit: &n, direct: map[string]bool{}}
				for _, l := range lfCalledWith[key] {
					u.ctx = append(u.ctx, lfHeld{name: l.name, excl: l.excl, ctx: true, expr: "<caller>." + l.name})
				}
				if rn := lfRecvName(fd); rn != "" {
					for _, l := range lfInferred[key] {
						fld := l.name[strings.LastIndex(l.name, ".")+1:]
						u.ctx = append(u.ctx, lfHeld{name: l.name, excl: l.excl, ctx: true, inferred: true, base: rn, expr: rn + "." + fld})
					}
				}
				a.bindLocals(u)
				a.units[key] = u
				a.order = append(a.order, key)
				a.fnBody(u)
			}
		}
	}
	return a
}

// lfInfer: "helper H is only ever called, on object X, by callers that hold X's lock L". Inferred
// for an unexported method that is never used as a value (only called), is never reached through a
// call the resolver could not type, and has at least one call site; the result is the intersection
// over ALL its call sites (a `go` call holds nothing) of the locks whose owner expression is the
// call's receiver expression. Extracting part of a critical section into such a helper therefore
// keeps the rows of the moved accesses guarded, and calling the helper without the lock anywhere
// drops the lock from every row of the helper (and the table theorem fails).
func lfInfer(a *lfAn) map[string][]lfLockMode {
	// identifiers in call position, and every other use of a name
	valueNames := map[string]bool{}
	for _, pc := range lfPackages {
		for _, lf := range a.w.pkgs[pc.key].files {
			callIdents := map[*ast.Ident]bool{}
			ast.Inspect(lf.f, func(n ast.Node) bool {
				switch x := n.(type) {
				case *ast.CallExpr:
					switch f := x.Fun.(type) {
					case *ast.Ident:
						callIdents[f] = true
					case *ast.SelectorExpr:
						callIdents[f.Sel] = true
					}
				case *ast.FuncDecl:
					callIdents[x.Name] = true
				}
				return true
			})
			ast.Inspect(lf.f, func(n ast.Node) bool {
				if id, ok := n.(*ast.Ident); ok && !callIdents[id] {
					valueNames[id.Name] = true
				}
				return true
			})
		}
	}
	unresolved := map[string]bool{}
	for _, ur := range lfUnresolvedCalls {
		unresolved[ur.name] = true
	}
	out := map[string][]lfLockMode{}
	for _, k := range a.order {
		u := a.units[k]
		if strings.Contains(k, "$") || u.recv == nil || lfCalledWith[k] != nil || lfInitFns[k] {
			continue
		}
		name := k[strings.LastIndex(k, ".")+1:]
		if name == "" || !(name[0] >= 'a' && name[0] <= 'z') || valueNames[name] || unresolved[name] {
			continue
		}
		sites := a.callsTo[k]
		if len(sites) == 0 {
			continue
		}
		var acc []lfLockMode
		for i, s := range sites {
			var here []lfLockMode
			if !s.isGo && s.recv != "" {
				for _, h := range s.held {
					if h.base == s.recv && h.base != "" && (!h.ctx || h.inferred) {
						here = append(here, lfLockMode{h.name, h.excl})
					}
				}
			}
			if i == 0 {
				acc = here
				continue
			}
			var both []lfLockMode
			for _, x := range acc {
				for _, y := range here {
					if x.name == y.name {
						both = append(both, lfLockMode{x.name, x.excl && y.excl})
						break
					}
				}
			}
			acc = both
		}
		if len(acc) > 0 {
			out[k] = acc
		}
	}
	return out
}

func lfSameInferred(x, y map[string][]lfLockMode) bool {
	if len(x) != len(y) {
		return false
	}
	for k, v := range x {
		w, ok := y[k]
		if !ok || len(v) != len(w) {
			return false
		}
		for i := range v {
			if v[i] != w[i] {
				return false
			}
		}
	}
	return true
}

func lockFactsLean(root string) (string, error) {
	w, err := lfLoad(root)
	if err != nil {
		return "", err
	}
	// every configured field must exist
	for _, f := range lfShared {
		t := lfTy{pkg: f.pkg, name: f.strct}
		for _, n := range f.path {
			nt, ok := w.field(t, n)
			if !ok {
				return "", fmt.Errorf("configured shared field %s.%s.%s does not exist", f.pkg, f.strct, strings.Join(f.path, "."))
			}
			t = nt
		}
	}
	lfFindWrappers(w)
	loadErrs := append([]string{}, w.errs...)
	lfInferred = map[string][]lfLockMode{}
	var a *lfAn
	for round := 0; ; round++ {
		lfUnresolvedCalls = nil
		w.errs = append([]string{}, loadErrs...)
		a = lfAnalyse(w)
		next := lfInfer(a)
		if lfSameInferred(next, lfInferred) {
			break
		}
		if round == 8 {
			return "", fmt.Errorf("caller-held lock inference does not reach a fixed point")
		}
		lfInferred = next
	}
	for k := range lfInitFns {
		if a.units[k] == nil {
			w.errs = append(w.errs, "init expectation names a function that does not exist: "+k)
		}
	}
	// caller-context expectations: every resolvable call site must hold the lock
	ctxKeys := []string{}
	for k := range lfCalledWith {
		ctxKeys = append(ctxKeys, k)
	}
	sort.Strings(ctxKeys)
	for _, k := range ctxKeys {
		if a.units[k] == nil {
			w.errs = append(w.errs, "caller-context expectation names a function that does not exist: "+k)
			continue
		}
		sites := a.callsTo[k]
		if len(sites) == 0 {
			w.errs = append(w.errs, "caller-context expectation for "+k+" is stale: no call site found")
		}
		for _, s := range sites {
			for _, need := range lfCalledWith[k] {
				ok := false
				for _, h := range s.held {
					if h.name == need.name && (h.excl || !need.excl) {
						ok = true
					}
				}
				if !ok {
					w.errf(s.pos, "%s is expected to be called with %s held, but %s calls it without", k, need.name, s.from)
				}
			}
		}
	}
	// may-acquire summary (fixed point over resolvable, non-go calls)
	acq := map[string]map[string]bool{}
	for k, u := range a.units {
		acq[k] = map[string]bool{}
		for l := range u.direct {
			acq[k][l] = true
		}
	}
	for changed := true; changed; {
		changed = false
		for k, u := range a.units {
			for _, e := range u.events {
				for _, c := range e.callees {
					for l := range acq[c] {
						if !acq[k][l] {
							acq[k][l] = true
							changed = true
						}
					}
				}
			}
		}
	}
	// unresolved method calls whose name collides with a lock-acquiring function: fail closed
	for _, ur := range lfUnresolvedCalls {
		for k := range a.units {
			if strings.HasSuffix(k, "."+ur.name) && len(acq[k]) > 0 {
				w.errf(ur.pos, "call of method %s on a receiver of unknown type in %s; %s acquires locks", ur.name, ur.unit, k)
				break
			}
		}
	}
	edges := map[[2]string]bool{}
	for _, k := range a.order {
		for _, e := range a.units[k].events {
			targets := map[string]bool{}
			if e.acquire != "" {
				targets[e.acquire] = true
			}
			for _, c := range e.callees {
				for l := range acq[c] {
					targets[l] = true
				}
			}
			for _, h := range e.held {
				for t := range targets {
					edges[[2]string{h.name, t}] = true
				}
			}
		}
	}
	for _, f := range lfShared {
		name := f.strct + "." + strings.Join(f.path, ".")
		n := 0
		for _, r := range a.rows {
			if r.field == name {
				n++
			}
		}
		if n == 0 {
			w.errs = append(w.errs, "no access to configured shared field "+name+" was found")
		}
	}
	if len(w.errs) > 0 {
		seenErr := map[string]bool{}
		var uniq []string
		for _, e := range w.errs {
			if !seenErr[e] {
				seenErr[e] = true
				uniq = append(uniq, e)
			}
		}
		w.errs = uniq
		return "", fmt.Errorf("lock-fact extraction failed (unrecognised constructs):\n  %s", strings.Join(w.errs, "\n  "))
	}

	var sb strings.Builder
	sb.WriteString("/- GENERATED by /verif/extract (lockfacts.go) from the current /repo source on every ./check run. Do not edit. -/\n")
	sb.WriteString("namespace DnsVerif.Generated.LockFacts\n\n")
	sb.WriteString("/-- One read or write occurrence of a shared field. `locks`: (lock, held exclusively). -/\n")
	sb.WriteString("structure Row where\n  field : String\n  fn : String\n  write : Bool\n  locks : List (String × Bool)\n  init : Bool\n  pos : String\nderiving Repr, DecidableEq\n\n")
	sb.WriteString("def rows : List Row := [\n")
	for i, r := range a.rows {
		var ls []string
		for _, l := range r.locks {
			ls = append(ls, fmt.Sprintf("(%s, %v)", strconv.Quote(l.name), l.excl))
		}
		sep := ","
		if i == len(a.rows)-1 {
			sep = ""
		}
		fmt.Fprintf(&sb, "  ⟨%s, %s, %v, [%s], %v, %s⟩%s\n", strconv.Quote(r.field), strconv.Quote(r.fn), r.write,
			strings.Join(ls, ", "), r.init, strconv.Quote(r.pos), sep)
	}
	sb.WriteString("]\n\n")
	sb.WriteString("/-- sends and receives on channels that are shared fields: (field, function, send|recv, locks held, position) -/\n")
	sb.WriteString("def chanOps : List (String × String × String × List (String × Bool) × String) := [\n")
	for i, c := range a.chanOps {
		var ls []string
		for _, l := range c.locks {
			ls = append(ls, fmt.Sprintf("(%s, %v)", strconv.Quote(l.name), l.excl))
		}
		sep := ","
		if i == len(a.chanOps)-1 {
			sep = ""
		}
		fmt.Fprintf(&sb, "  (%s, %s, %s, [%s], %s)%s\n", strconv.Quote(c.field), strconv.Quote(c.fn), strconv.Quote(c.kind), strings.Join(ls, ", "), strconv.Quote(c.pos), sep)
	}
	sb.WriteString("]\n\n")
	var es [][2]string
	for e := range edges {
		es = append(es, e)
	}
	sort.Slice(es, func(i, j int) bool {
		if es[i][0] != es[j][0] {
			return es[i][0] < es[j][0]
		}
		return es[i][1] < es[j][1]
	})
	sb.WriteString("/-- (A, B): lock B is acquired (directly or in a callee) while lock A is held. -/\n")
	sb.WriteString("def lockOrder : List (String × String) := [\n")
	for i, e := range es {
		sep := ","
		if i == len(es)-1 {
			sep = ""
		}
		fmt.Fprintf(&sb, "  (%s, %s)%s\n", strconv.Quote(e[0]), strconv.Quote(e[1]), sep)
	}
	sb.WriteString("]\n\n")
	var fs []string
	for _, f := range lfShared {
		fs = append(fs, strconv.Quote(f.strct+"."+strings.Join(f.path, ".")))
	}
	fmt.Fprintf(&sb, "/-- the configured shared fields (each must have at least one row) -/\ndef sharedFields : List String := [%s]\n\n", strings.Join(fs, ", "))
	var ins []string
	for k := range lfInitFns {
		ins = append(ins, strconv.Quote(k))
	}
	sort.Strings(ins)
	fmt.Fprintf(&sb, "/-- hand-written expectation: these functions run before the object is shared -/\ndef initFns : List String := [%s]\n\n", strings.Join(ins, ", "))
	var cw []string
	for _, k := range ctxKeys {
		for _, l := range lfCalledWith[k] {
			cw = append(cw, fmt.Sprintf("(%s, %s, %v)", strconv.Quote(k), strconv.Quote(l.name), l.excl))
		}
	}
	fmt.Fprintf(&sb, "/-- hand-written expectation, checked against every resolvable call site: callee, lock, exclusive -/\ndef calledWith : List (String × String × Bool) := [%s]\n\n", strings.Join(cw, ", "))
	var iks []string
	for k := range lfInferred {
		iks = append(iks, k)
	}
	sort.Strings(iks)
	var iw []string
	for _, k := range iks {
		for _, l := range lfInferred[k] {
			iw = append(iw, fmt.Sprintf("(%s, %s, %v)", strconv.Quote(k), strconv.Quote(l.name), l.excl))
		}
	}
	fmt.Fprintf(&sb, "/-- inferred by the extractor from ALL call sites of an unexported, never-escaping method: the\nreceiver's lock every caller holds (callee, lock, exclusive); the rows of the callee list it -/\ndef inferredCalledWith : List (String × String × Bool) := [%s]\n\n", strings.Join(iw, ", "))
	sb.WriteString("end DnsVerif.Generated.LockFacts\n")
	return sb.String(), nil
}
