package main

import (
	"go/ast"
	"go/token"
	"sort"
	"strconv"
)

// extractAll lists, per package, the facts the Lean model depends on. Each block is added when the
// corresponding part of the model is written; every name listed is *required* (fail closed).
func extractAll(root string, o *out) {
	dnsdata := load(root, "dnsdata")
	env := dnsdata.topLevel()
	o.sb.WriteString("/-! dnsdata/data.go -/\n")
	for _, n := range []string{"LongTTL", "ShortTTL", "LinkTTL", "NUMFIELDS"} {
		o.nat("dnsdata_"+n, need(env, "dnsdata", n))
	}
	for _, n := range []string{"SEP", "NSEP", "RangePointKeyMarker", "FeaturesKey", "ResourceRecordsKeyMarker"} {
		o.bytes("dnsdata_"+n, need(env, "dnsdata", n))
	}

	o.sb.WriteString("\n/-! dnsserver/handler.go -/\n")
	dnsserver := load(root, "dnsserver")
	denv := dnsserver.topLevel()
	o.nat("dnsserver_DefaultMaxAnswer", need(denv, "dnsserver", "DefaultMaxAnswer"))
	// the format string of the response-cache key: first argument of the fmt.Sprintf call assigned
	// to `cacheKey` in ServeDNSWithRCODE
	o.str("dnsserver_cacheKeyFormat", sprintfFormatAssignedTo(dnsserver, "FBDNSDB.ServeDNSWithRCODE", "cacheKey"))

	o.sb.WriteString("\n/-! dnsdata/rdb -/\n")
	rdb := load(root, "dnsdata/rdb")
	renv := rdb.topLevel()
	o.nat("rdb_DefaultBatchSize", need(renv, "rdb", "DefaultBatchSize"))
	o.nat("rdb_NumberOfIterators", need(renv, "rdb", "NumberOfIterators"))

	// source-order trace of lock operations and accesses to `samples` in the bodies of the sliding
	// window's cleaner, Add and Samples ("Lock" "Unlock" "RLock" "RUnlock" "deferUnlock" "R" "W"):
	// the sequential window model is the code only if each body is one critical section
	// the reader acquisition: pointer read, reference count increment (db.NewReader) and generation
	// read must all happen inside one shared section of reloadMu
	o.strs("dnsserver_acquireReaderGen_trace", lockTrace(dnsserver, "FBDNSDB.acquireReaderGen", "reloadMu", "dnsdb", "NewReader"))
	// the reload: everything from reading the served DB through db.Reload, the pointer swap and the
	// cache purge inside one exclusive section of reloadMu
	o.strs("dnsserver_Reload_trace", lockTrace(dnsserver, "FBDNSDB.Reload", "reloadMu", "dnsdb", "Reload", "Purge"))
	// fbserver/any.go: the fields of the synthesized HINFO answer (composite literals in ServeDNS)
	o.sb.WriteString("\n/-! fbserver/any.go -/\n")
	fbserver := load(root, "fbserver")
	anyFn := fbserver.funcDecl("anyHandler.ServeDNS")
	o.str("fbserver_any_hinfo_cpu", compositeField(fbserver, anyFn, "HINFO", "Cpu"))
	o.str("fbserver_any_hinfo_os", compositeField(fbserver, anyFn, "HINFO", "Os"))
	o.str("fbserver_any_hinfo_ttl", compositeField(fbserver, anyFn, "RR_Header", "Ttl"))

	// db/answer.go dnsLabelWildsafe: the byte classes that let a wildcard stretch across a label
	o.sb.WriteString("\n/-! db/answer.go -/\n")
	dbp := load(root, "db")
	o.strs("db_wildsafe_classes", wildsafeClasses(dbp))
	o.sb.WriteString("\n/-! metrics/swindow.go -/\n")
	metrics := load(root, "metrics")
	for _, fn := range []string{"cleaner", "Add", "Samples"} {
		o.strs("swindow_"+fn+"_trace", lockTrace(metrics, "slidingWindow."+fn, "mutex", "samples"))
	}
}

// lockTrace lists, in source order, the calls <x>.<mutex>.{Lock,Unlock,RLock,RUnlock} (a deferred
// call is prefixed "defer") and the reads ("R") / writes ("W") of <x>.<field> in function fn.
func lockTrace(p *pkgInfo, fn, mutex, field string, calls ...string) []string {
	fd := p.funcDecl(fn)
	type ev struct {
		pos token.Pos
		s   string
	}
	var evs []ev
	writes := map[*ast.SelectorExpr]token.Pos{}
	deferred := map[*ast.CallExpr]bool{}
	ast.Inspect(fd.Body, func(nd ast.Node) bool {
		switch x := nd.(type) {
		case *ast.AssignStmt:
			for _, l := range x.Lhs {
				if se, ok := l.(*ast.SelectorExpr); ok && se.Sel.Name == field {
					writes[se] = x.End() // a write takes effect after its right-hand side
				}
			}
		case *ast.DeferStmt:
			deferred[x.Call] = true
		case *ast.CallExpr:
			if se, ok := x.Fun.(*ast.SelectorExpr); ok {
				for _, c := range calls {
					if se.Sel.Name == c {
						evs = append(evs, ev{x.End(), "call:" + c}) // after its arguments
					}
				}
				if in, ok := se.X.(*ast.SelectorExpr); ok && in.Sel.Name == mutex {
					name := se.Sel.Name
					if deferred[x] {
						name = "defer" + name
					}
					evs = append(evs, ev{x.Pos(), name})
				}
			}
		case *ast.SelectorExpr:
			if x.Sel.Name == field {
				if end, ok := writes[x]; ok {
					evs = append(evs, ev{end, "W"})
				} else {
					evs = append(evs, ev{x.Pos(), "R"})
				}
			}
		}
		return true
	})
	sort.SliceStable(evs, func(i, j int) bool { return evs[i].pos < evs[j].pos })
	var out []string
	for _, e := range evs {
		out = append(out, e.s)
	}
	if len(out) == 0 {
		fail("%s: no lock/field events found in %s", p.dir, fn)
	}
	return out
}

// sprintfFormatAssignedTo finds `<name> = fmt.Sprintf("<literal>", ...)` in function fn.
func sprintfFormatAssignedTo(p *pkgInfo, fn, name string) string {
	fd := p.funcDecl(fn)
	found := ""
	n := 0
	ast.Inspect(fd.Body, func(nd ast.Node) bool {
		as, ok := nd.(*ast.AssignStmt)
		if !ok || len(as.Lhs) != 1 || len(as.Rhs) != 1 {
			return true
		}
		id, ok := as.Lhs[0].(*ast.Ident)
		if !ok || id.Name != name {
			return true
		}
		call, ok := as.Rhs[0].(*ast.CallExpr)
		if !ok {
			return true
		}
		sel, ok := call.Fun.(*ast.SelectorExpr)
		if !ok || sel.Sel.Name != "Sprintf" || len(call.Args) == 0 {
			return true
		}
		lit, ok := call.Args[0].(*ast.BasicLit)
		if !ok || lit.Kind != token.STRING {
			return true
		}
		v, err := strconv.Unquote(lit.Value)
		if err != nil {
			return true
		}
		found = v
		n++
		return true
	})
	if n != 1 {
		fail("%s: expected exactly one `%s = fmt.Sprintf(\"...\", …)`, found %d", fn, name, n)
	}
	return found
}

// compositeField returns the source text of field `field` in the first composite literal of type
// <pkg>.<typ> (or <typ>) inside fn, unquoted if it is a string literal.
func compositeField(p *pkgInfo, fn *ast.FuncDecl, typ, field string) string {
	found, ok := "", false
	ast.Inspect(fn.Body, func(nd ast.Node) bool {
		cl, is := nd.(*ast.CompositeLit)
		if !is || ok {
			return true
		}
		name := ""
		switch t := cl.Type.(type) {
		case *ast.SelectorExpr:
			name = t.Sel.Name
		case *ast.Ident:
			name = t.Name
		}
		if name != typ {
			return true
		}
		for _, e := range cl.Elts {
			kv, is := e.(*ast.KeyValueExpr)
			if !is {
				continue
			}
			if id, is := kv.Key.(*ast.Ident); is && id.Name == field {
				if lit, is := kv.Value.(*ast.BasicLit); is {
					found, ok = lit.Value, true
					if lit.Kind == token.STRING {
						if u, err := strconv.Unquote(lit.Value); err == nil {
							found = u
						}
					}
				}
			}
		}
		return true
	})
	if !ok {
		fail("%s: no literal field %s.%s in %s", p.dir, typ, field, fn.Name.Name)
	}
	return found
}

// wildsafeClasses lists the comparisons of dnsLabelWildsafe's loop body in source order, e.g.
// "a-z", "0-9", "-", "_" (each `c >= X && c <= Y` or `c == X` found in an if condition).
func wildsafeClasses(p *pkgInfo) []string {
	fd := p.funcDecl("dnsLabelWildsafe")
	var out []string
	lit := func(e ast.Expr) string {
		if b, ok := e.(*ast.BasicLit); ok && b.Kind == token.CHAR {
			if u, err := strconv.Unquote(b.Value); err == nil {
				return u
			}
		}
		return "?"
	}
	var walk func(e ast.Expr)
	walk = func(e ast.Expr) {
		be, ok := e.(*ast.BinaryExpr)
		if !ok {
			out = append(out, "?")
			return
		}
		switch be.Op {
		case token.LOR:
			walk(be.X)
			walk(be.Y)
		case token.LAND:
			l, lok := be.X.(*ast.BinaryExpr)
			r, rok := be.Y.(*ast.BinaryExpr)
			if lok && rok && l.Op == token.GEQ && r.Op == token.LEQ {
				out = append(out, lit(l.Y)+"-"+lit(r.Y))
			} else {
				out = append(out, "?")
			}
		case token.EQL:
			out = append(out, lit(be.Y))
		default:
			out = append(out, "?")
		}
	}
	ast.Inspect(fd.Body, func(nd ast.Node) bool {
		if is, ok := nd.(*ast.IfStmt); ok {
			walk(is.Cond)
		}
		return true
	})
	if len(out) == 0 {
		fail("%s: dnsLabelWildsafe has no recognisable conditions", p.dir)
	}
	return out
}
