package main

// extractAll lists, per package, the facts the Lean model depends on. Each block is added when the
// corresponding part of the model is written; every name listed is *required* (fail closed).
func extractAll(root string, o *out) {
	dnsdata := load(root, "dnsdata")
	env := dnsdata.topLevel()
	o.sb.WriteString("/-! dnsdata/data.go -/\n")
	for _, n := range []string{"LongTTL", "ShortTTL", "LinkTTL", "NUMFIELDS"} {
		o.nat("dnsdata_"+n, need(env, "dnsdata", n))
	}
	for _, n := range []string{"SEP", "NSEP", "RangePointKeyMarker", "FeaturesKey", "ResourceRecordsKeyMarker"} {
		o.bytes("dnsdata_"+n, need(env, "dnsdata", n))
	}
}
