package main

import (
	"go/ast"
	"go/constant"
	"go/token"
	"path/filepath"
	"sort"
	"strconv"
	"strings"
)

// extractAll lists, per package, the facts the Lean model depends on. Each block is added when the
// corresponding part of the model is written; every name listed is *required* (fail closed).
func extractAll(root string, o *out) {
	dnsdata := load(root, "dnsdata")
	env := dnsdata.topLevel()
	o.sb.WriteString("/-! dnsdata/data.go -/\n")
	for _, n := range []string{"LongTTL", "ShortTTL", "LinkTTL", "NUMFIELDS"} {
		o.try("dnsdata_"+n, func() { o.nat("dnsdata_"+n, need(env, "dnsdata", n)) })
	}
	for _, n := range []string{"SEP", "NSEP", "RangePointKeyMarker", "FeaturesKey", "ResourceRecordsKeyMarker"} {
		o.try("dnsdata_"+n, func() { o.bytes("dnsdata_"+n, need(env, "dnsdata", n)) })
	}

	o.sb.WriteString("\n/-! dnsserver/handler.go -/\n")
	dnsserver := load(root, "dnsserver")
	denv := dnsserver.topLevel()
	o.try("dnsserver_DefaultMaxAnswer", func() {
		o.nat("dnsserver_DefaultMaxAnswer", need(denv, "dnsserver", "DefaultMaxAnswer"))
	})
	// the format string of the response-cache key: the one fmt.Sprintf call of the package that
	// formats a location id (`<x>.LocID` among its arguments), wherever it lives (in ServeDNSWithRCODE
	// or in a helper it calls)
	// optional: the key strings of the running cache are compared with the model's on every run
	// (C12 `hist`/`race` ops, `keys=`)
	o.optStr("dnsserver_cacheKeyFormat", func() string { return sprintfFormatOver(dnsserver, "LocID") })

	o.sb.WriteString("\n/-! dnsdata/rdb -/\n")
	rdb := load(root, "dnsdata/rdb")
	renv := rdb.topLevel()
	for _, n := range []string{"DefaultBatchSize", "NumberOfIterators"} {
		o.try("rdb_"+n, func() { o.nat("rdb_"+n, need(renv, "rdb", n)) })
	}

	// source-order trace of lock operations and accesses ("Lock" "Unlock" "RLock" "RUnlock"
	// "deferUnlock" "R" "W", "call:<f>"); calls of other methods of the same receiver are inlined.
	// the reader acquisition: pointer read, reference count increment (db.NewReader) and generation
	// read must all happen inside one shared section of reloadMu
	o.try("dnsserver_acquireReaderGen_trace", func() {
		o.strs("dnsserver_acquireReaderGen_trace", lockTrace(dnsserver, "FBDNSDB.acquireReaderGen", "reloadMu", "dnsdb", "NewReader"))
	})
	// the reload: everything from reading the served DB through db.Reload, the pointer swap and the
	// cache purge inside one exclusive section of reloadMu
	o.try("dnsserver_Reload_trace", func() {
		o.strs("dnsserver_Reload_trace", lockTrace(dnsserver, "FBDNSDB.Reload", "reloadMu", "dnsdb", "Reload", "Purge"))
	})
	// fbserver/any.go: the fields of the synthesized HINFO answer (the one HINFO composite literal
	// of the file, with its header; literals or constants of the package)
	o.sb.WriteString("\n/-! fbserver/any.go -/\n")
	fbserver := load(root, "fbserver")
	// optional: the reply to ANY is compared field by field over real sockets on every run (C20)
	o.optStr("fbserver_any_hinfo_cpu", func() string { return compositeField(fbserver, "HINFO", "Cpu") })
	o.optStr("fbserver_any_hinfo_os", func() string { return compositeField(fbserver, "HINFO", "Os") })
	o.optStr("fbserver_any_hinfo_ttl", func() string { return compositeField(fbserver, "RR_Header", "Ttl") })

	// db/answer.go dnsLabelWildsafe: the byte classes that let a wildcard stretch across a label
	o.sb.WriteString("\n/-! db/answer.go -/\n")
	dbp := load(root, "db")
	// optional: the 256-entry table is read off the running function on every run (C01 `wildsafe` op)
	o.optStrs("db_wildsafe_classes", func() []string { return wildsafeClasses(dbp) })
	// metrics/swindow.go: the sequential window model is the code only if each body is one critical
	// section around its accesses to `samples`
	o.sb.WriteString("\n/-! metrics/swindow.go -/\n")
	metrics := load(root, "metrics")
	for _, fn := range []string{"cleaner", "Add", "Samples"} {
		o.try("swindow_"+fn+"_trace", func() {
			o.strs("swindow_"+fn+"_trace", lockTrace(metrics, "slidingWindow."+fn, "mutex", "samples"))
		})
	}
}

// lockTrace lists, in source order, the calls <x>.<mutex>.{Lock,Unlock,RLock,RUnlock} (a deferred
// call is prefixed "defer") and the reads ("R") / writes ("W") of <x>.<field> in function fn.
func lockTrace(p *pkgInfo, fn, mutex, field string, calls ...string) []string {
	out := lockTraceOf(p, p.funcDecl(fn), mutex, field, calls, 0)
	if len(out) == 0 {
		fail("%s: no lock/field events found in %s", p.dir, fn)
	}
	return out
}

// recvOf returns the receiver's name and type name of a method declaration ("", "" for a function)
func recvOf(fd *ast.FuncDecl) (name, typ string) {
	if fd.Recv == nil || len(fd.Recv.List) != 1 {
		return "", ""
	}
	t := fd.Recv.List[0].Type
	if st, ok := t.(*ast.StarExpr); ok {
		t = st.X
	}
	if id, ok := t.(*ast.Ident); ok {
		typ = id.Name
	}
	if len(fd.Recv.List[0].Names) == 1 {
		name = fd.Recv.List[0].Names[0].Name
	}
	return name, typ
}

// methodDecl is funcDecl without the failure: nil when the package has no such method
func (p *pkgInfo) methodDecl(typ, name string) *ast.FuncDecl {
	for _, f := range p.files {
		for _, d := range f.Decls {
			if fd, ok := d.(*ast.FuncDecl); ok && fd.Name.Name == name && fd.Body != nil {
				if _, t := recvOf(fd); t == typ {
					return fd
				}
			}
		}
	}
	return nil
}

// lockTraceOf: the trace of one body. A call <recv>.<m>(...) of another method of the same receiver
// type (not one of the tracked `calls`) is replaced by the trace of that method's body, in which a
// deferred unlock is moved to the end (it runs when the helper returns): extracting a helper, or
// inlining one, leaves the trace as it was.
func lockTraceOf(p *pkgInfo, fd *ast.FuncDecl, mutex, field string, calls []string, depth int) []string {
	type ev struct {
		pos token.Pos
		s   []string
	}
	var evs []ev
	recvName, recvTyp := recvOf(fd)
	writes := map[*ast.SelectorExpr]token.Pos{}
	deferred := map[*ast.CallExpr]bool{}
	ast.Inspect(fd.Body, func(nd ast.Node) bool {
		switch x := nd.(type) {
		case *ast.AssignStmt:
			for _, l := range x.Lhs {
				if se, ok := l.(*ast.SelectorExpr); ok && se.Sel.Name == field {
					writes[se] = x.End() // a write takes effect after its right-hand side
				}
			}
		case *ast.DeferStmt:
			deferred[x.Call] = true
			if fl, ok := x.Call.Fun.(*ast.FuncLit); ok {
				// defer func() { x.Unlock() }(): the calls of the literal's body run at function exit
				ast.Inspect(fl.Body, func(m ast.Node) bool {
					if c, ok := m.(*ast.CallExpr); ok {
						deferred[c] = true
					}
					return true
				})
			}
		case *ast.CallExpr:
			if se, ok := x.Fun.(*ast.SelectorExpr); ok {
				tracked := false
				for _, c := range calls {
					if se.Sel.Name == c {
						evs = append(evs, ev{x.End(), []string{"call:" + c}}) // after its arguments
						tracked = true
					}
				}
				if in, ok := se.X.(*ast.SelectorExpr); ok && in.Sel.Name == mutex {
					name := se.Sel.Name
					if deferred[x] {
						name = "defer" + name
					}
					evs = append(evs, ev{x.Pos(), []string{name}})
				}
				if id, ok := se.X.(*ast.Ident); ok && !tracked && recvName != "" && id.Name == recvName && depth < 4 {
					if callee := p.methodDecl(recvTyp, se.Sel.Name); callee != nil && callee != fd {
						sub := lockTraceOf(p, callee, mutex, field, calls, depth+1)
						var body, tail []string
						for _, e := range sub {
							if strings.HasPrefix(e, "defer") {
								tail = append([]string{strings.TrimPrefix(e, "defer")}, tail...)
							} else {
								body = append(body, e)
							}
						}
						if len(sub) > 0 {
							if deferred[x] {
								fail("%s: deferred call of %s.%s, which touches %s/%s, is not understood", p.dir, recvTyp, se.Sel.Name, mutex, field)
							}
							evs = append(evs, ev{x.End(), append(body, tail...)})
						}
					}
				}
			}
		case *ast.SelectorExpr:
			if x.Sel.Name == field {
				if end, ok := writes[x]; ok {
					evs = append(evs, ev{end, []string{"W"}})
				} else {
					evs = append(evs, ev{x.Pos(), []string{"R"}})
				}
			}
		}
		return true
	})
	sort.SliceStable(evs, func(i, j int) bool { return evs[i].pos < evs[j].pos })
	var out []string
	for _, e := range evs {
		out = append(out, e.s...)
	}
	return out
}

// sprintfFormatOver finds the one `fmt.Sprintf("<literal>", ...)` call of the package with an argument
// that is a selector `<x>.<sel>`, and returns the literal.
func sprintfFormatOver(p *pkgInfo, sel string) string {
	found := ""
	n := 0
	for _, f := range p.files {
		ast.Inspect(f, func(nd ast.Node) bool {
			call, ok := nd.(*ast.CallExpr)
			if !ok || len(call.Args) < 2 {
				return true
			}
			fs, ok := call.Fun.(*ast.SelectorExpr)
			if !ok || fs.Sel.Name != "Sprintf" {
				return true
			}
			lit, ok := call.Args[0].(*ast.BasicLit)
			if !ok || lit.Kind != token.STRING {
				return true
			}
			for _, a := range call.Args[1:] {
				if se, ok := a.(*ast.SelectorExpr); ok && se.Sel.Name == sel {
					if v, err := strconv.Unquote(lit.Value); err == nil {
						found = v
						n++
					}
				}
			}
			return true
		})
	}
	if n != 1 {
		fail("%s: expected exactly one fmt.Sprintf(\"...\", …) over a .%s argument, found %d", p.dir, sel, n)
	}
	return found
}

// sprintfFormatAssignedTo finds `<name> = fmt.Sprintf("<literal>", ...)` in function fn.
func sprintfFormatAssignedTo(p *pkgInfo, fn, name string) string {
	fd := p.funcDecl(fn)
	found := ""
	n := 0
	ast.Inspect(fd.Body, func(nd ast.Node) bool {
		as, ok := nd.(*ast.AssignStmt)
		if !ok || len(as.Lhs) != 1 || len(as.Rhs) != 1 {
			return true
		}
		id, ok := as.Lhs[0].(*ast.Ident)
		if !ok || id.Name != name {
			return true
		}
		call, ok := as.Rhs[0].(*ast.CallExpr)
		if !ok {
			return true
		}
		sel, ok := call.Fun.(*ast.SelectorExpr)
		if !ok || sel.Sel.Name != "Sprintf" || len(call.Args) == 0 {
			return true
		}
		lit, ok := call.Args[0].(*ast.BasicLit)
		if !ok || lit.Kind != token.STRING {
			return true
		}
		v, err := strconv.Unquote(lit.Value)
		if err != nil {
			return true
		}
		found = v
		n++
		return true
	})
	if n != 1 {
		fail("%s: expected exactly one `%s = fmt.Sprintf(\"...\", …)`, found %d", fn, name, n)
	}
	return found
}

// compositeField returns the value of field `field` in the one composite literal of type
// <pkg>.<typ> (or <typ>) in file any.go of the package that sets it: a literal, or a constant
// expression over the package's own constants.
func compositeField(p *pkgInfo, typ, field string) string {
	found, n := "", 0
	env := p.topLevel()
	for fname, f := range p.files {
		if filepath.Base(fname) != "any.go" {
			continue
		}
		ast.Inspect(f, func(nd ast.Node) bool {
			cl, is := nd.(*ast.CompositeLit)
			if !is {
				return true
			}
			name := ""
			switch t := cl.Type.(type) {
			case *ast.SelectorExpr:
				name = t.Sel.Name
			case *ast.Ident:
				name = t.Name
			}
			if name != typ {
				return true
			}
			for _, e := range cl.Elts {
				kv, is := e.(*ast.KeyValueExpr)
				if !is {
					continue
				}
				if id, is := kv.Key.(*ast.Ident); is && id.Name == field {
					if v, is := constValue(kv.Value, env, 0); is && v != nil {
						if v.Kind() == constant.String {
							found, n = constant.StringVal(v), n+1
						} else if v.Kind() == constant.Int {
							found, n = v.ExactString(), n+1
						}
					} else {
						n += 100 // set, but not to something we can evaluate
					}
				}
			}
			return true
		})
	}
	if n != 1 {
		fail("%s: no single constant field %s.%s in any.go", p.dir, typ, field)
	}
	return found
}

// wildsafeClasses lists the comparisons of dnsLabelWildsafe's loop body in source order, e.g.
// "a-z", "0-9", "-", "_" (each `c >= X && c <= Y` or `c == X` found in an if condition).
func wildsafeClasses(p *pkgInfo) []string {
	fd := p.funcDecl("dnsLabelWildsafe")
	var out []string
	lit := func(e ast.Expr) string {
		if b, ok := e.(*ast.BasicLit); ok && b.Kind == token.CHAR {
			if u, err := strconv.Unquote(b.Value); err == nil {
				return u
			}
		}
		return "<?>"
	}
	var walk func(e ast.Expr)
	walk = func(e ast.Expr) {
		if pe, ok := e.(*ast.ParenExpr); ok {
			walk(pe.X)
			return
		}
		be, ok := e.(*ast.BinaryExpr)
		if !ok {
			out = append(out, "<?>")
			return
		}
		switch be.Op {
		case token.LOR:
			walk(be.X)
			walk(be.Y)
		case token.LAND:
			l, lok := be.X.(*ast.BinaryExpr)
			r, rok := be.Y.(*ast.BinaryExpr)
			if lok && rok && l.Op == token.GEQ && r.Op == token.LEQ {
				out = append(out, lit(l.Y)+"-"+lit(r.Y))
			} else {
				out = append(out, "<?>")
			}
		case token.EQL:
			out = append(out, lit(be.Y))
		default:
			out = append(out, "<?>")
		}
	}
	ast.Inspect(fd.Body, func(nd ast.Node) bool {
		switch x := nd.(type) {
		case *ast.IfStmt:
			walk(x.Cond)
		case *ast.SwitchStmt:
			// `switch { case c >= 'a' && c <= 'z', c == '-': ... }`
			if x.Tag == nil {
				for _, st := range x.Body.List {
					if cc, ok := st.(*ast.CaseClause); ok {
						for _, e := range cc.List {
							walk(e)
						}
					}
				}
			}
		}
		return true
	})
	if len(out) == 0 {
		fail("%s: dnsLabelWildsafe has no recognisable conditions", p.dir)
	}
	for _, c := range out {
		if strings.Contains(c, "<?>") {
			fail("%s: dnsLabelWildsafe is not a chain of `c >= X && c <= Y` / `c == X` tests", p.dir)
		}
	}
	return out
}
