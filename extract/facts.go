package main

import (
	"go/ast"
	"go/token"
	"strconv"
)

// extractAll lists, per package, the facts the Lean model depends on. Each block is added when the
// corresponding part of the model is written; every name listed is *required* (fail closed).
func extractAll(root string, o *out) {
	dnsdata := load(root, "dnsdata")
	env := dnsdata.topLevel()
	o.sb.WriteString("/-! dnsdata/data.go -/\n")
	for _, n := range []string{"LongTTL", "ShortTTL", "LinkTTL", "NUMFIELDS"} {
		o.nat("dnsdata_"+n, need(env, "dnsdata", n))
	}
	for _, n := range []string{"SEP", "NSEP", "RangePointKeyMarker", "FeaturesKey", "ResourceRecordsKeyMarker"} {
		o.bytes("dnsdata_"+n, need(env, "dnsdata", n))
	}

	o.sb.WriteString("\n/-! dnsserver/handler.go -/\n")
	dnsserver := load(root, "dnsserver")
	denv := dnsserver.topLevel()
	o.nat("dnsserver_DefaultMaxAnswer", need(denv, "dnsserver", "DefaultMaxAnswer"))
	// the format string of the response-cache key: first argument of the fmt.Sprintf call assigned
	// to `cacheKey` in ServeDNSWithRCODE
	o.str("dnsserver_cacheKeyFormat", sprintfFormatAssignedTo(dnsserver, "FBDNSDB.ServeDNSWithRCODE", "cacheKey"))

	o.sb.WriteString("\n/-! dnsdata/rdb -/\n")
	rdb := load(root, "dnsdata/rdb")
	renv := rdb.topLevel()
	o.nat("rdb_DefaultBatchSize", need(renv, "rdb", "DefaultBatchSize"))
	o.nat("rdb_NumberOfIterators", need(renv, "rdb", "NumberOfIterators"))
}

// sprintfFormatAssignedTo finds `<name> = fmt.Sprintf("<literal>", ...)` in function fn.
func sprintfFormatAssignedTo(p *pkgInfo, fn, name string) string {
	fd := p.funcDecl(fn)
	found := ""
	n := 0
	ast.Inspect(fd.Body, func(nd ast.Node) bool {
		as, ok := nd.(*ast.AssignStmt)
		if !ok || len(as.Lhs) != 1 || len(as.Rhs) != 1 {
			return true
		}
		id, ok := as.Lhs[0].(*ast.Ident)
		if !ok || id.Name != name {
			return true
		}
		call, ok := as.Rhs[0].(*ast.CallExpr)
		if !ok {
			return true
		}
		sel, ok := call.Fun.(*ast.SelectorExpr)
		if !ok || sel.Sel.Name != "Sprintf" || len(call.Args) == 0 {
			return true
		}
		lit, ok := call.Args[0].(*ast.BasicLit)
		if !ok || lit.Kind != token.STRING {
			return true
		}
		v, err := strconv.Unquote(lit.Value)
		if err != nil {
			return true
		}
		found = v
		n++
		return true
	})
	if n != 1 {
		fail("%s: expected exactly one `%s = fmt.Sprintf(\"...\", …)`, found %d", fn, name, n)
	}
	return found
}
