// Command verifextract is the fact translator: it reads the *current* dnsrocks source with
// go/parser + go/ast and emits Lean definitions (Generated/*.lean) for every constant, marker,
// table and format string the Lean model is parameterised by. It fails closed: a source shape it
// does not recognise is an error (exit 1), which ./check reports as a broken tie.
//
//	verifextract <path to dnsrocks> <output dir>
package main

import (
	"fmt"
	"go/ast"
	"go/constant"
	"go/parser"
	"go/token"
	"go/types"
	"os"
	"path/filepath"
	"sort"
	"strconv"
	"strings"
)

type pkgInfo struct {
	fset  *token.FileSet
	files map[string]*ast.File // base name -> file
	dir   string
}

func load(root, rel string) *pkgInfo {
	dir := filepath.Join(root, rel)
	fset := token.NewFileSet()
	ents, err := os.ReadDir(dir)
	if err != nil {
		fail("read %s: %v", dir, err)
	}
	p := &pkgInfo{fset: fset, files: map[string]*ast.File{}, dir: rel}
	for _, e := range ents {
		n := e.Name()
		if !strings.HasSuffix(n, ".go") || strings.HasSuffix(n, "_test.go") {
			continue
		}
		f, err := parser.ParseFile(fset, filepath.Join(dir, n), nil, parser.ParseComments)
		if err != nil {
			fail("parse %s: %v", n, err)
		}
		// skip files guarded by the verif build tag (hooks) – facts come from production code
		skip := false
		for _, cg := range f.Comments {
			if cg.Pos() < f.Package && strings.Contains(cg.Text(), "go:build verif") {
				skip = true
			}
		}
		if skip {
			continue
		}
		p.files[n] = f
	}
	return p
}

// extractErr is raised by fail inside a `try` scope: the one fact being extracted is left out of the
// generated file (the Lean modules that use it stop building - and only those) and the extractor
// goes on with the other facts.
type extractErr struct{ msg string }

var tryDepth int
var missingFacts []string

func fail(f string, a ...interface{}) {
	if tryDepth > 0 {
		panic(extractErr{fmt.Sprintf(f, a...)})
	}
	fmt.Fprintf(os.Stderr, "verifextract: "+f+"\n", a...)
	os.Exit(1)
}

// optStr / optStrs: a fact whose content is ALSO compared behaviourally on every run (a table or an
// exact string read off the running code by the harness, compared with the model by the driver).
// The syntactic copy is emitted as `some v`, or as `none` when the source no longer has the shape
// the extractor understands; the theorem about it then says nothing and the behavioural tie stands
// alone (the check notes this in its evidence).
var unrecognised []string

func (o *out) optStr(name string, f func() string) {
	tryDepth++
	defer func() {
		tryDepth--
		if r := recover(); r != nil {
			e, ok := r.(extractErr)
			if !ok {
				panic(r)
			}
			fmt.Fprintf(&o.sb, "-- not recognised: %s\ndef %s : Option String := none\n", strings.ReplaceAll(e.msg, "\n", " "), leanIdent(name))
			unrecognised = append(unrecognised, name+": "+e.msg)
		}
	}()
	v := f()
	fmt.Fprintf(&o.sb, "def %s : Option String := some %s\n", leanIdent(name), strconv.Quote(v))
}

func (o *out) optStrs(name string, f func() []string) {
	tryDepth++
	defer func() {
		tryDepth--
		if r := recover(); r != nil {
			e, ok := r.(extractErr)
			if !ok {
				panic(r)
			}
			fmt.Fprintf(&o.sb, "-- not recognised: %s\ndef %s : Option (List String) := none\n", strings.ReplaceAll(e.msg, "\n", " "), leanIdent(name))
			unrecognised = append(unrecognised, name+": "+e.msg)
		}
	}()
	v := f()
	var qs []string
	for _, x := range v {
		qs = append(qs, strconv.Quote(x))
	}
	fmt.Fprintf(&o.sb, "def %s : Option (List String) := some [%s]\n", leanIdent(name), strings.Join(qs, ", "))
}

// try extracts one fact (or one group that stands or falls together)
func (o *out) try(what string, f func()) {
	tryDepth++
	mark := o.sb.Len()
	defer func() {
		tryDepth--
		if r := recover(); r != nil {
			e, ok := r.(extractErr)
			if !ok {
				panic(r)
			}
			keep := o.sb.String()[:mark]
			o.sb.Reset()
			o.sb.WriteString(keep)
			fmt.Fprintf(&o.sb, "-- MISSING %s: %s\n", what, strings.ReplaceAll(e.msg, "\n", " "))
			missingFacts = append(missingFacts, what+": "+e.msg)
		}
	}()
	f()
}

// constValue evaluates a constant expression made of literals, other constants of the same
// package (resolved through env), and the operators the source uses.
func constValue(e ast.Expr, env map[string]constant.Value, iota int) (constant.Value, bool) {
	switch x := e.(type) {
	case *ast.BasicLit:
		return constant.MakeFromLiteral(x.Value, x.Kind, 0), true
	case *ast.Ident:
		if x.Name == "iota" {
			return constant.MakeInt64(int64(iota)), true
		}
		v, ok := env[x.Name]
		return v, ok
	case *ast.ParenExpr:
		return constValue(x.X, env, iota)
	case *ast.BinaryExpr:
		a, ok1 := constValue(x.X, env, iota)
		b, ok2 := constValue(x.Y, env, iota)
		if !ok1 || !ok2 {
			return nil, false
		}
		if x.Op == token.SHL || x.Op == token.SHR {
			s, _ := constant.Uint64Val(b)
			return constant.Shift(a, x.Op, uint(s)), true
		}
		return constant.BinaryOp(a, x.Op, b), true
	case *ast.UnaryExpr:
		a, ok := constValue(x.X, env, iota)
		if !ok {
			return nil, false
		}
		return constant.UnaryOp(x.Op, a, 0), true
	case *ast.CallExpr:
		// conversions such as uint8(3), WireType(1), []byte("x"), time.Duration(...)
		if len(x.Args) == 1 {
			return constValue(x.Args[0], env, iota)
		}
	case *ast.SelectorExpr:
		// dns.TypeA etc. are not resolved here
		return nil, false
	}
	return nil, false
}

// topLevel collects every top-level const and every top-level var whose initialiser is a
// constant expression or a []byte("...") conversion.
func (p *pkgInfo) topLevel() map[string]constant.Value {
	env := map[string]constant.Value{}
	names := make([]string, 0, len(p.files))
	for n := range p.files {
		names = append(names, n)
	}
	sort.Strings(names)
	for pass := 0; pass < 3; pass++ {
		for _, n := range names {
			for _, d := range p.files[n].Decls {
				gd, ok := d.(*ast.GenDecl)
				if !ok || (gd.Tok != token.CONST && gd.Tok != token.VAR) {
					continue
				}
				var lastVals []ast.Expr
				for i, s := range gd.Specs {
					vs := s.(*ast.ValueSpec)
					vals := vs.Values
					if gd.Tok == token.CONST {
						if len(vals) == 0 {
							vals = lastVals
						} else {
							lastVals = vals
						}
					}
					for j, name := range vs.Names {
						if j >= len(vals) {
							continue
						}
						if v, ok := constValue(vals[j], env, i); ok {
							env[name.Name] = v
						}
					}
				}
			}
		}
	}
	return env
}

func (p *pkgInfo) funcDecl(name string) *ast.FuncDecl {
	for _, f := range p.files {
		for _, d := range f.Decls {
			fd, ok := d.(*ast.FuncDecl)
			if !ok {
				continue
			}
			full := fd.Name.Name
			if fd.Recv != nil && len(fd.Recv.List) == 1 {
				t := fd.Recv.List[0].Type
				if st, ok := t.(*ast.StarExpr); ok {
					t = st.X
				}
				if id, ok := t.(*ast.Ident); ok {
					full = id.Name + "." + fd.Name.Name
				}
			}
			if full == name {
				return fd
			}
		}
	}
	fail("%s: function %s not found", p.dir, name)
	return nil
}

func leanIdent(s string) string {
	return strings.Map(func(r rune) rune {
		if r == '.' || r == '-' || r == '/' {
			return '_'
		}
		return r
	}, s)
}

func leanBytes(s string) string {
	parts := make([]string, len(s))
	for i := 0; i < len(s); i++ {
		parts[i] = strconv.Itoa(int(s[i]))
	}
	return "[" + strings.Join(parts, ", ") + "]"
}

type out struct {
	sb strings.Builder
}

func (o *out) nat(name string, v constant.Value) {
	i, ok := constant.Int64Val(constant.ToInt(v))
	if !ok {
		fail("constant %s is not an integer: %v", name, v)
	}
	fmt.Fprintf(&o.sb, "def %s : Nat := %d\n", leanIdent(name), i)
}

func (o *out) bytes(name string, v constant.Value) {
	if v.Kind() != constant.String {
		fail("constant %s is not a string: %v", name, v)
	}
	fmt.Fprintf(&o.sb, "def %s : List UInt8 := %s\n", leanIdent(name), leanBytes(constant.StringVal(v)))
}

func (o *out) str(name string, s string) {
	fmt.Fprintf(&o.sb, "def %s : String := %s\n", leanIdent(name), strconv.Quote(s))
}

func (o *out) strs(name string, v []string) {
	var q []string
	for _, s := range v {
		q = append(q, strconv.Quote(s))
	}
	fmt.Fprintf(&o.sb, "def %s : List String := [%s]\n", leanIdent(name), strings.Join(q, ", "))
}

func need(env map[string]constant.Value, pkg, name string) constant.Value {
	v, ok := env[name]
	if !ok {
		fail("%s: constant %s not found or not a constant expression", pkg, name)
	}
	return v
}

var _ = types.Universe

func main() {
	if len(os.Args) != 3 {
		fail("usage: verifextract <dnsrocks dir> <out dir>")
	}
	root, outDir := os.Args[1], os.Args[2]
	o := &out{}
	o.sb.WriteString("/- GENERATED by /verif/extract from the current /repo source on every ./check run. Do not edit. -/\n")
	o.sb.WriteString("namespace DnsVerif.Generated\n\n")
	extractAll(root, o)
	o.sb.WriteString("\nend DnsVerif.Generated\n")
	if err := os.WriteFile(filepath.Join(outDir, "Facts.lean"), []byte(o.sb.String()), 0o644); err != nil {
		fail("%v", err)
	}
	// lock/access table of the shared fields (C14)
	lf, err := lockFactsLean(root)
	if err != nil {
		// no table: the modules that state something about it stop building, the others do not care
		missingFacts = append(missingFacts, "LockFacts: "+err.Error())
		lf = "/- GENERATED by /verif/extract (lockfacts.go): the lock table could NOT be extracted from the current source:\n" +
			strings.ReplaceAll(err.Error(), "-/", "- /") + "\n-/\nnamespace DnsVerif.Generated.LockFacts\nend DnsVerif.Generated.LockFacts\n"
	}
	if err := os.WriteFile(filepath.Join(outDir, "LockFacts.lean"), []byte(lf), 0o644); err != nil {
		fail("%v", err)
	}
	for _, m := range unrecognised {
		fmt.Fprintf(os.Stderr, "verifextract: NOT-RECOGNISED (behavioural tie only) %s\n", m)
	}
	if len(missingFacts) > 0 {
		for _, m := range missingFacts {
			fmt.Fprintf(os.Stderr, "verifextract: MISSING %s\n", m)
		}
		os.Exit(3)
	}
}
