#!/usr/bin/env python3
"""Debug helper: per-backend/per-query diff of `serve` op results (impl vs model)."""
import sys, collections
ops, impl, model = sys.argv[1:4]
limit = int(sys.argv[4]) if len(sys.argv) > 4 else 10
O = open(ops).read().split("\n"); I = open(impl).read().split("\n"); M = open(model).read().split("\n")
tot = bad = 0
cls = collections.Counter()
shown = 0
for ln, (o, i, m) in enumerate(zip(O, I, M)):
    if not o.startswith("serve "): continue
    i = i.split("\t")[0][2:]; m = m.split("\t")[0][2:]
    f = o.split(" ")
    lines = [bytes.fromhex(x).decode("latin1") if x != "-" else "" for x in f[1].split(";")]
    qs = f[2].split(";")
    ib = dict(p.split(":", 1) for p in i.split("#") if ":" in p)
    mb = dict(p.split(":", 1) for p in m.split("#") if ":" in p)
    for b in ib:
        ir = ib[b].split("~"); mr = mb.get(b, "").split("~")
        for k, (x, y) in enumerate(zip(ir, mr + [""] * len(ir))):
            tot += 1
            if x != y:
                bad += 1
                cls[b] += 1
                if shown < limit:
                    shown += 1
                    q = qs[k].split(".") if k < len(qs) else ["?"]
                    name = bytes.fromhex(q[0]).decode("latin1") if q[0] != "-" else ""
                    print(f"--- line {ln+1} backend {b} q{k}: {name} type {q[1]} class {q[2]} max {q[3]} opt {q[5] if len(q)>5 else ''}")
                    print("   file:", " ; ".join(lines)[:700])
                    print("   impl :", x[:600])
                    print("   model:", y[:600])
print(f"total {tot} mismatching {bad} by backend {dict(cls)}")
