#!/usr/bin/env python3
"""Single entry point of the verification machinery:  ./check Cxx [--tier quick|thorough]

Decides one property (see DESIGN.md section 4):
  1. regenerate Generated/*.lean from /repo's current source (fact extractor)
  2. proof obligations: lake build Props.Cxx, audit `#print axioms`, grep for escape hatches
  3. correspondence: real code (Go harness, -tags verif) vs Lean model (drv_Cxx, the property's own driver executable) on generated cases
  4. property oracle on the implementation (Spec evaluated on impl output)
  5. if 2 or 3 broke: search for a failing input, shrink, write the replay
  6. known findings
  7. evidence/Cxx.json
"""
import argparse
import fcntl
import hashlib
import json
import os
import re
import shutil
import subprocess
import sys
import time

VERIF = os.path.dirname(os.path.dirname(os.path.abspath(__file__)))
LEAN = os.path.join(VERIF, "lean")
BUILD = os.path.join(VERIF, "build")
HARNESS_SRC = os.path.join(VERIF, "harness")
EXTRACT_SRC = os.path.join(VERIF, "extract")
REPO = os.environ.get("VERIF_REPO", "/repo")
ALLOWED_AXIOMS = {"propext", "Classical.choice", "Quot.sound"}
FORBIDDEN_RE = re.compile(
    r"\bsorry\b|\badmit\b|^axiom |native_decide|bv_decide|implemented_by|\bunsafe |maxHeartbeats 0")

GOENV = dict(os.environ)
GOENV.update({"GOFLAGS": "-mod=mod", "GOPROXY": "off", "GOSUMDB": "off", "GOTOOLCHAIN": "local",
              "CGO_ENABLED": "1"})

sys.path.insert(0, os.path.dirname(os.path.abspath(__file__)))
from propcfg import PROPS  # noqa: E402


def log(msg):
    print(f"[check] {msg}", flush=True)


def run(cmd, cwd=None, env=None, timeout=None, stdin=None):
    p = subprocess.run(cmd, cwd=cwd, env=env, timeout=timeout, stdin=stdin,
                       stdout=subprocess.PIPE, stderr=subprocess.STDOUT, text=True, errors="replace")
    return p.returncode, p.stdout


class Lock:
    """Serialises the build phases between concurrently running checks."""

    def __init__(self, name):
        os.makedirs(BUILD, exist_ok=True)
        self.path = os.path.join(BUILD, name)

    def __enter__(self):
        self.f = open(self.path, "w")
        fcntl.flock(self.f, fcntl.LOCK_EX)
        return self

    def __exit__(self, *a):
        fcntl.flock(self.f, fcntl.LOCK_UN)
        self.f.close()


# ---------------------------------------------------------------------------------------------
# step 1: fact extractor

MISSING_FACTS = ""


def regenerate_facts():
    """Run the go/ast extractor over /repo and rewrite lean/DnsVerif/Generated/*.lean.
    Returns (ok, message)."""
    gen_dir = os.path.join(LEAN, "DnsVerif", "Generated")
    os.makedirs(gen_dir, exist_ok=True)
    exe = os.path.join(BUILD, "verifextract")
    rc, out = run(["go", "build", "-o", exe, "."], cwd=EXTRACT_SRC, env=GOENV)
    if rc != 0:
        return False, "extractor build failed:\n" + out
    tmp = os.path.join(BUILD, "generated.tmp")
    shutil.rmtree(tmp, ignore_errors=True)
    os.makedirs(tmp)
    rc, out = run([exe, os.path.join(REPO, "dnsrocks"), tmp])
    global MISSING_FACTS
    MISSING_FACTS = ""
    if rc == 3:
        # some facts could not be extracted: they are left out of the generated files, so exactly the
        # Lean modules that use them stop building; a property that does not depend on them is not
        # touched (its obligations still build against everything else the source says now)
        MISSING_FACTS = "fact extraction failed (source shape not recognised):\n" + out
    elif rc != 0:
        return False, "fact extraction failed (source shape not recognised):\n" + out
    # only rewrite files whose content changed so lake does not rebuild needlessly
    for name in os.listdir(gen_dir):
        if name.endswith(".lean") and not os.path.exists(os.path.join(tmp, name)):
            os.remove(os.path.join(gen_dir, name))
    for name in os.listdir(tmp):
        src, dst = os.path.join(tmp, name), os.path.join(gen_dir, name)
        new = open(src).read()
        old = open(dst).read() if os.path.exists(dst) else None
        if new != old:
            with open(dst, "w") as f:
                f.write(new)
    shutil.rmtree(tmp, ignore_errors=True)
    return True, out


# ---------------------------------------------------------------------------------------------
# step 2: proof obligations

def theorem_at(path, line_no):
    """Name of the declaration enclosing line `line_no` of a Lean file."""
    try:
        lines = open(path).read().split("\n")
    except OSError:
        return None
    for i in range(min(line_no, len(lines)) - 1, -1, -1):
        m = re.match(r"\s*(?:private\s+|protected\s+)?(?:theorem|lemma|def|example|instance|abbrev)\s+([^\s:({\[]+)?", lines[i])
        if m:
            return m.group(1) or "example"
    return None


def import_closure(module):
    """Files of this project reachable from `module` through `import` lines."""
    seen, todo, files = set(), [module], []
    while todo:
        m = todo.pop()
        if m in seen:
            continue
        seen.add(m)
        path = os.path.join(LEAN, *m.split(".")) + ".lean"
        if not os.path.exists(path):
            continue
        files.append(path)
        for line in open(path, errors="replace"):
            mm = re.match(r"\s*(?:public\s+)?import\s+(\S+)", line)
            if mm and (mm.group(1).startswith("DnsVerif") or mm.group(1).startswith("Driver")):
                todo.append(mm.group(1))
    return files


def forbidden_scan(pid):
    """grep for escape hatches in every project file the property theorems (and the driver) import."""
    hits = []
    files = set(import_closure(f"DnsVerif.Props.{pid}")) | set(import_closure(f"Driver.Main{pid}"))
    for p in sorted(files):
        in_block = 0
        for n, line in enumerate(open(p, errors="replace"), 1):
            s = line
            out = ""
            i = 0
            while i < len(s):
                if s.startswith("/-", i):
                    in_block += 1
                    i += 2
                elif s.startswith("-/", i) and in_block:
                    in_block -= 1
                    i += 2
                elif in_block:
                    i += 1
                elif s.startswith("--", i):
                    break
                else:
                    out += s[i]
                    i += 1
            if FORBIDDEN_RE.search(out):
                hits.append(f"{os.path.relpath(p, LEAN)}:{n}: {line.strip()}")
    return hits


def proof_obligations(pid, tier):
    """Build the property theorems and audit their axioms.
    Returns dict(obligations=[names], discharged=[names], broken=[(name, why)], axioms=set, log=str)."""
    cfg = PROPS[pid]
    res = {"obligations": [], "discharged": [], "broken": [], "axioms": set(), "log": ""}
    audit_path = os.path.join(LEAN, "DnsVerif", "Audit", f"{pid}.lean")
    audit_src = open(audit_path).read()
    names = re.findall(r"^#print axioms\s+(\S+)", audit_src, flags=re.M)
    res["obligations"] = names
    targets = [f"DnsVerif.Props.{pid}", f"drv_{pid}"]
    t0 = time.time()
    rc, out = run(["lake", "build"] + targets, cwd=LEAN, timeout=3600)
    res["log"] += out[-20000:]
    res["build_s"] = round(time.time() - t0, 1)
    if rc != 0:
        broken = {}
        for m in re.finditer(r"^error: ([^:\n]+\.lean):(\d+):(\d+): (.*)$", out, flags=re.M):
            path = m.group(1)
            if not os.path.isabs(path):
                path = os.path.join(LEAN, path)
            th = theorem_at(path, int(m.group(2))) or "?"
            broken.setdefault(f"{os.path.relpath(path, LEAN)}:{th}", m.group(4)[:300])
        if not broken:
            broken["lake-build"] = out[-600:]
        if MISSING_FACTS:
            broken["fact-extractor"] = MISSING_FACTS[-1500:]
        res["broken"] = sorted(broken.items())
        # try to audit anyway what still builds: nothing (module failed) -> all undischarged
        return res
    rc, out = run(["lake", "env", "lean", audit_path], cwd=LEAN, timeout=1800)
    res["log"] += out[-20000:]
    found = {}
    for m in re.finditer(r"'([^']+)' depends on axioms: \[([^\]]*)\]", out, flags=re.S):
        found[m.group(1)] = {a.strip() for a in m.group(2).replace("\n", " ").split(",") if a.strip()}
    for m in re.finditer(r"'([^']+)' does not depend on any axioms", out):
        found[m.group(1)] = set()
    for n in names:
        key = n
        # lean prints fully qualified names; accept suffix match
        cands = [k for k in found if k == n or k.endswith("." + n)]
        if not cands:
            res["broken"].append((n, "no `#print axioms` output (unknown constant?)"))
            continue
        ax = found[cands[0]]
        res["axioms"] |= ax
        bad = ax - ALLOWED_AXIOMS
        if bad:
            res["broken"].append((n, "depends on forbidden axioms: " + ", ".join(sorted(bad))))
        else:
            res["discharged"].append(key)
    if rc != 0 and not res["broken"]:
        res["broken"].append(("audit", out[-600:]))
    hits = forbidden_scan(pid)
    if hits:
        res["broken"].append(("forbidden-constructs", "; ".join(hits[:10])))
    if tier == "thorough" and not res["broken"]:
        mods = [f"DnsVerif.Props.{pid}"] + cfg.get("leanchecker_extra", [])
        rc, out = run(["lake", "env", "leanchecker"] + mods, cwd=LEAN, timeout=3600)
        res["log"] += out[-5000:]
        res["leanchecker"] = "ok" if rc == 0 else "FAILED"
        if rc != 0:
            res["broken"].append(("leanchecker", out[-600:]))
    return res


# ---------------------------------------------------------------------------------------------
# step 3/4: correspondence + property oracle

def build_harness(race=False):
    exe = os.path.join(BUILD, "verifharness-race" if race else "verifharness")
    shutil.copyfile(os.path.join(REPO, "dnsrocks", "go.sum"), os.path.join(HARNESS_SRC, "go.sum"))
    cmd = ["go", "build"] + (["-race"] if race else []) + ["-tags", "verif", "-ldflags=-checklinkname=0", "-o", exe, "."]
    rc, out = run(cmd, cwd=HARNESS_SRC, env=GOENV, timeout=3600)
    return rc == 0, out, exe


def race_reports(workdir):
    """Parse Go race detector logs written under workdir/race.*: list of (frames, text)."""
    reps = []
    for fn in sorted(os.listdir(workdir)):
        if not fn.startswith("race."):
            continue
        txt = open(os.path.join(workdir, fn), errors="replace").read()
        for block in txt.split("WARNING: DATA RACE")[1:]:
            frames = re.findall(r"^\s+(/\S+\.go:\d+)", block, flags=re.M)
            tops = []
            for part in re.split(r"\n(?:Previous |Goroutine )", block)[:2]:
                m = re.search(r"^\s+(/\S+\.go:\d+)", part, flags=re.M)
                if m:
                    tops.append(m.group(1))
            reps.append((tops, ("WARNING: DATA RACE" + block)[:6000]))
    return reps


class Case:
    __slots__ = ("op", "impl", "pver", "model", "sver")

    def __init__(self, op, impl, pver, model, sver):
        self.op, self.impl, self.pver, self.model, self.sver = op, impl, pver, model, sver

    @property
    def corr_ok(self):
        return self.impl == self.model

    @property
    def prop_ok(self):
        if self.pver.startswith("FAIL"):
            return False
        if self.sver.startswith("FAIL"):
            return False
        if self.sver.startswith("=") and self.sver[1:] != self.impl:
            return False
        return True

    def to_json(self):
        return {"op": self.op[:4000], "impl": self.impl[:4000], "model": self.model[:4000],
                "impl_oracle": self.pver, "spec_oracle": self.sver[:4000]}


def execute_ops(pid, ops_lines, workdir, exe, tag="x"):
    """Run ops through the real code and through the Lean driver. Returns list[Case]."""
    prelude_ops = PROPS[pid].get("prelude_ops", [])
    prelude = [ln for ln in ops_lines if ln.split(" ")[0] in prelude_ops]
    env = dict(GOENV)
    env["TMPDIR"] = workdir
    env.setdefault("GOMEMLIMIT", "8GiB")
    if PROPS[pid].get("race_build"):
        env["GORACE"] = f"log_path={os.path.join(workdir, 'race')} halt_on_error=0"
    impl_lines = []
    start = 0
    rounds = 0
    while start < len(ops_lines):
        rounds += 1
        ops_path = os.path.join(workdir, f"{tag}.ops")
        impl_path = os.path.join(workdir, f"{tag}.impl")
        chunk = ops_lines[start:]
        pre = prelude if start > 0 else []
        with open(ops_path, "w") as f:
            for ln in pre + chunk:
                f.write(ln + "\n")
        if os.path.exists(impl_path):
            os.remove(impl_path)
        try:
            rc, out = run([exe, "run", pid, ops_path, impl_path], env=env,
                          timeout=PROPS[pid].get("run_timeout", 7200))
        except subprocess.TimeoutExpired:
            rc, out = 124, "harness timeout"
        got = open(impl_path, errors="replace").read().split("\n") if os.path.exists(impl_path) else []
        if got and got[-1] == "":
            got.pop()
        got = got[len(pre):]
        impl_lines.extend(got[:len(chunk)])
        start += len(got[:len(chunk)])
        if start < len(ops_lines):
            # the harness process died (fatal error, os.Exit, panic in another goroutine) on this op
            last = (out.strip().split("\n") or ["?"])
            msg = next((l for l in last if "panic" in l or "fatal" in l), last[-1])[:200]
            msg = msg.replace("\t", " ").replace(" ", "_")
            impl_lines.append(f"I=harness-crash:{msg}\tP=FAIL:harness-crash")
            start += 1
            if rounds > 20:
                while len(impl_lines) < len(ops_lines):
                    impl_lines.append("I=not-run\tP=-")
                break
    joined_path = os.path.join(workdir, f"{tag}.joined")
    with open(joined_path, "w") as f:
        for op, il in zip(ops_lines, impl_lines):
            i = il.split("\t")[0][2:]
            f.write(f"{op} | {i}\n")
    drv = os.path.join(LEAN, ".lake", "build", "bin", f"drv_{pid}")
    with open(joined_path) as fin:
        p = subprocess.run([drv], stdin=fin, stdout=subprocess.PIPE, stderr=subprocess.PIPE, text=True,
                           errors="replace", timeout=PROPS[pid].get("run_timeout", 7200))
    model_lines = p.stdout.split("\n")
    if model_lines and model_lines[-1] == "":
        model_lines.pop()
    cases = []
    for k, op in enumerate(ops_lines):
        il = impl_lines[k].split("\t")
        impl = il[0][2:] if il and il[0].startswith("I=") else "?"
        pver = il[1][2:] if len(il) > 1 else "-"
        if k < len(model_lines):
            ml = model_lines[k].split("\t")
            model = ml[0][2:] if ml[0].startswith("M=") else "?"
            sver = ml[1][2:] if len(ml) > 1 else "-"
        else:
            model, sver = "driver-crash:" + p.stderr.strip()[-200:].replace("\n", " "), "-"
        cases.append(Case(op, impl, pver, model, sver))
    return cases


def shrink_case(pid, case, prelude, workdir, exe, want):
    """Delta-debug the `;`-separated list arguments and hex arguments of one failing op line.
    `want(case) -> bool` says whether a candidate still fails in the same way."""
    best = case
    budget = 150
    toks = best.op.split(" ")

    def attempt(new_toks):
        nonlocal budget
        if budget <= 0:
            return None
        budget -= 1
        cs = execute_ops(pid, prelude + [" ".join(new_toks)], workdir, exe, tag="shrink")
        c = cs[-1]
        return c if want(c) else None

    changed = True
    while changed and budget > 0:
        changed = False
        for ti in range(1, len(toks)):
            t = toks[ti]
            if ";" in t:
                parts = t.split(";")
                n = len(parts)
                chunk = max(1, n // 2)
                while chunk >= 1 and budget > 0:
                    i = 0
                    while i < len(parts) and len(parts) > 1:
                        cand = parts[:i] + parts[i + chunk:]
                        if not cand:
                            i += chunk
                            continue
                        nt = toks[:ti] + [";".join(cand)] + toks[ti + 1:]
                        c = attempt(nt)
                        if c is not None:
                            parts = cand
                            toks = nt
                            best = c
                            changed = True
                        else:
                            i += chunk
                    chunk //= 2
            elif re.fullmatch(r"(?:[0-9a-f]{2}){2,}", t):
                bs = [t[i:i + 2] for i in range(0, len(t), 2)]
                chunk = max(1, len(bs) // 2)
                while chunk >= 1 and budget > 0:
                    i = 0
                    while i < len(bs) and len(bs) > 1:
                        cand = bs[:i] + bs[i + chunk:]
                        if not cand:
                            i += chunk
                            continue
                        nt = toks[:ti] + ["".join(cand)] + toks[ti + 1:]
                        c = attempt(nt)
                        if c is not None:
                            bs = cand
                            toks = nt
                            best = c
                            changed = True
                        else:
                            i += chunk
                    chunk //= 2
    return best


def shape_of(pid, case):
    """Distinctness key of a case: the harness may append `#shape=<key>` to an op; otherwise the
    op name plus a coarse class of the impl output."""
    m = re.search(r"#shape=(\S+)", case.op)
    if m:
        return m.group(1)
    out_class = re.sub(r"[0-9a-f]{6,}", "H", case.impl)[:60]
    return case.op.split(" ")[0] + "/" + out_class


def distribution(pid, cases):
    """What the generated inputs looked like on this run: ops, outcome shapes, sizes, verdicts."""
    import collections
    if not cases:
        return {}
    ops = collections.Counter(c.op.split(" ")[0] for c in cases)
    shapes = collections.Counter(shape_of(pid, c) for c in cases)
    lens = sorted(len(c.op) for c in cases)
    verdict = lambda v: re.sub(r"[:(@].*", "", v)[:40] if v else "-"
    return {
        "ops": dict(ops.most_common(20)),
        "outcome_shapes_top": [[k[:90], n] for k, n in shapes.most_common(15)],
        "outcome_shapes_seen_once": sum(1 for n in shapes.values() if n == 1),
        "op_line_bytes": {"min": lens[0], "median": lens[len(lens) // 2], "max": lens[-1]},
        "impl_oracle_verdicts": dict(collections.Counter(verdict(c.pver) for c in cases).most_common(10)),
        "spec_oracle_verdicts": dict(collections.Counter(("=expected" if c.sver.startswith("=") else verdict(c.sver))
                                                          for c in cases).most_common(10)),
    }


# ---------------------------------------------------------------------------------------------

def load_known():
    p = os.path.join(VERIF, "known_findings.json")
    if not os.path.exists(p):
        return []
    return json.load(open(p)).get("findings", [])


def corpus_lines(pid):
    d = os.path.join(VERIF, "corpus", pid)
    out = []
    if os.path.isdir(d):
        for fn in sorted(os.listdir(d)):
            if fn.endswith(".ops"):
                for ln in open(os.path.join(d, fn)):
                    ln = ln.rstrip("\n")
                    if ln and not ln.startswith("#"):
                        out.append((fn, ln))
    return out


def main():
    ap = argparse.ArgumentParser()
    ap.add_argument("prop")
    ap.add_argument("--tier", default=os.environ.get("VERIF_TIER", "quick"), choices=["quick", "thorough"])
    ap.add_argument("--seed", type=int, default=int(os.environ.get("VERIF_SEED", "1") or 1))
    ap.add_argument("--replay")
    ap.add_argument("--skip-proofs", action="store_true", help="debugging aid; never used by MANIFEST commands")
    args = ap.parse_args()
    pid = args.prop.upper()
    if pid not in PROPS:
        print(f"unknown property {pid}")
        return 2
    cfg = PROPS[pid]
    t_start = time.time()
    os.makedirs(BUILD, exist_ok=True)
    os.makedirs(os.path.join(VERIF, "evidence"), exist_ok=True)
    os.makedirs(os.path.join(VERIF, "replays"), exist_ok=True)
    workdir = os.path.join(BUILD, f"run-{pid}-{os.getpid()}")
    shutil.rmtree(workdir, ignore_errors=True)
    os.makedirs(workdir)
    try:
        return decide(pid, cfg, args, workdir, t_start)
    finally:
        shutil.rmtree(workdir, ignore_errors=True)


def decide(pid, cfg, args, workdir, t_start):
    tier, seed = args.tier, args.seed
    violations = []      # (kind, description, replay dict)
    known_hits = []
    notes = []

    # ---- build phases under a lock -----------------------------------------------------------
    with Lock("build.lock"):
        ok, msg = regenerate_facts()
        tie_broken = []
        if not ok:
            tie_broken.append(("fact-extractor", msg[-1500:]))
        for ln in (msg or "").splitlines():
            if "NOT-RECOGNISED" in ln:
                notes.append(ln.replace("verifextract: ", "fact extractor: "))
        if args.skip_proofs:
            rc, out = run(["lake", "build", f"drv_{pid}"], cwd=LEAN)
            po = {"obligations": ["skipped"], "discharged": ["skipped"], "broken": [], "axioms": set(), "log": out}
        else:
            po = proof_obligations(pid, tier)
        hok, hout, exe = build_harness(race=bool(cfg.get("race_build")))
        if not hok:
            tie_broken.append(("harness-build", hout[-1500:]))
        drv_ok = os.path.exists(os.path.join(LEAN, ".lake", "build", "bin", f"drv_{pid}"))
        if hok:
            # private copies so later rebuilds by other checks do not disturb this run
            exe2 = os.path.join(workdir, "verifharness")
            shutil.copyfile(exe, exe2)
            os.chmod(exe2, 0o755)
            exe = exe2
    log(f"{pid}: obligations {len(po['discharged'])}/{len(po['obligations'])} discharged"
        + (f"; broken: {[b[0] for b in po['broken']]}" if po["broken"] else ""))

    # ---- replay mode -------------------------------------------------------------------------
    if args.replay:
        rp = json.load(open(args.replay))
        lines = rp.get("prelude", []) + [c["op"] for c in rp.get("cases", [])]
        cases = execute_ops(pid, lines, workdir, exe, tag="replay")
        bad = 0
        for c in cases[len(rp.get("prelude", [])):]:
            status = "ok" if (c.corr_ok and c.prop_ok) else "FAILS"
            if status != "ok":
                bad += 1
            print(f"replay: {status}\n  op    = {c.op[:500]}\n  impl  = {c.impl[:500]}\n  model = {c.model[:500]}\n"
                  f"  impl-oracle = {c.pver}   spec-oracle = {c.sver[:300]}")
        return 1 if bad else 0

    # ---- correspondence ----------------------------------------------------------------------
    cases = []
    prelude = []
    gen_stats = {}
    corpus = corpus_lines(pid)
    known = [k for k in load_known() if k.get("property") == pid and k.get("status") == "known"]
    known_ops = {k["op"]: k for k in known if "op" in k}
    for k in known:
        for o in k.get("ops", []):
            known_ops[o] = k
    if hok and drv_ok and cfg.get("harness", True):
        ops_path = os.path.join(workdir, "gen.ops")
        env = dict(GOENV)
        env["TMPDIR"] = workdir
        rc, out = run([exe, "gen", pid, tier, str(seed), ops_path], env=env, timeout=3600)
        if rc != 0:
            tie_broken.append(("harness-gen", out[-1500:]))
            gen_lines = []
        else:
            gen_lines = [ln for ln in open(ops_path, errors="replace").read().split("\n") if ln]
        pre_ops = cfg.get("prelude_ops", [])
        prelude = [ln for ln in gen_lines if ln.split(" ")[0] in pre_ops]
        lines = prelude + [ln for _fn, ln in corpus] + [ln for ln in gen_lines if ln.split(" ")[0] not in pre_ops]
        t0 = time.time()
        cases = execute_ops(pid, lines, workdir, exe, tag="main")
        gen_stats["run_s"] = round(time.time() - t0, 1)
        statp = ops_path + ".stats.json"
        if os.path.exists(statp):
            try:
                gen_stats["generator"] = json.load(open(statp))
            except Exception:
                pass
    elif cfg.get("harness", True):
        notes.append("correspondence not run: harness or driver did not build")

    corr_bad = [c for c in cases if not c.corr_ok]
    prop_bad = [c for c in cases if not c.prop_ok]

    # ---- classify ----------------------------------------------------------------------------
    # a finding may also be identified by its call site: the harness' own simulator (which sees the
    # schedule, not the implementation's answer) tags the failure with the call site it goes through,
    # and the entry matches only while implementation and model still agree on the case - i.e. the
    # behaviour is exactly the recorded one; anything else at that call site is a new violation
    known_sites = [(re.compile(k["call_site_verdict"]), k) for k in known if k.get("call_site_verdict")]

    def is_known(c):
        k = known_ops.get(c.op)
        if k is not None:
            return k
        if c.corr_ok:
            for rx, k in known_sites:
                if rx.search(c.pver):
                    return k
        return None

    reported = set()
    for c in prop_bad:
        k = is_known(c)
        if k:
            known_hits.append((k, c))
            continue
        if c.op in reported:
            continue
        reported.add(c.op)
        if len(violations) < 5:
            shr = shrink_case(pid, c, prelude, workdir, exe, lambda x: not x.prop_ok) if cfg.get("shrink", True) else c
            violations.append(("property-oracle", "implementation violates the property statement on this input",
                               {"cases": [shr.to_json()], "original": c.to_json()}))
    # data-race reports of the -race build (C14): every report is a violation (replay = the report)
    if cfg.get("race_build"):
        reps = race_reports(workdir)
        gen_stats["race_reports"] = len(reps)
        seen_pairs = set()
        for tops, text in reps:
            key = tuple(sorted(tops))
            if key in seen_pairs:
                continue
            seen_pairs.add(key)
            if len(violations) < 5:
                violations.append(("race-report", "Go race detector report (an unsynchronised conflicting access)",
                                   {"race_frames": tops, "report": text, "cases": [c.to_json() for c in cases[:2]]}))
    # correspondence disagreement without oracle failure: model or code changed; search
    corr_only = [c for c in corr_bad if c.prop_ok and not is_known(c)]
    search_needed = bool(corr_only or po["broken"] or tie_broken)
    search_info = {}
    if search_needed and not violations:
        # wider search for a failing input with further seeds of the thorough generator
        found = None
        tried = 0
        if hok and drv_ok and cfg.get("harness", True):
            for s2 in range(seed + 1000, seed + 1000 + cfg.get("search_seeds", 3)):
                ops_path = os.path.join(workdir, f"search{s2}.ops")
                env = dict(GOENV)
                env["TMPDIR"] = workdir
                rc, out = run([exe, "gen", pid, cfg.get("search_tier", "quick"), str(s2), ops_path], env=env, timeout=3600)
                if rc != 0:
                    continue
                lines = [ln for ln in open(ops_path, errors="replace").read().split("\n") if ln]
                cs = execute_ops(pid, lines, workdir, exe, tag=f"search{s2}")
                tried += len(cs)
                bad = [c for c in cs if not c.prop_ok and not is_known(c)]
                if bad:
                    found = bad[0]
                    pl = [ln for ln in lines if ln.split(" ")[0] in cfg.get("prelude_ops", [])]
                    found = shrink_case(pid, found, pl, workdir, exe, lambda x: not x.prop_ok) if cfg.get("shrink", True) else found
                    break
        search_info = {"extra_cases_tried": tried}
        if found is not None:
            violations.append(("property-oracle", "found by the search after a proof obligation / the correspondence broke",
                               {"cases": [found.to_json()]}))
        else:
            what = []
            for n, why in po["broken"]:
                what.append({"theorem_or_check": n, "why": why})
            for n, why in tie_broken:
                what.append({"theorem_or_check": n, "why": why})
            shr_cases = []
            for c in corr_only[:3]:
                shr = shrink_case(pid, c, prelude, workdir, exe, lambda x: not x.corr_ok) if cfg.get("shrink", True) else c
                shr_cases.append(shr.to_json())
            if corr_only:
                what.append({"theorem_or_check": "correspondence model-vs-implementation",
                             "why": f"{len(corr_only)} of {len(cases)} cases differ (model stale or code changed); property oracle holds on all of them"})
            violations.append(("no-failing-input-found", "a proof obligation or the correspondence no longer checks",
                               {"no_longer_checks": what, "cases": shr_cases, "search": search_info}))

    # ---- output ------------------------------------------------------------------------------
    printed = set()
    for k, c in known_hits:
        if k.get("id") not in printed:
            printed.add(k.get("id"))
            print(f"KNOWN-FINDING: property={pid} {k.get('id', '')} {k.get('what', '')} [witness: {c.op[:120]}]")
    # known findings listed but not exercised by an op (e.g. proved negations) are printed too
    for k in known:
        if "op" not in k and "ops" not in k and k.get("id") not in printed:
            print(f"KNOWN-FINDING: property={pid} {k.get('id', '')} {k.get('what', '')}")
    exit_code = 0
    for n, (kind, desc, rp) in enumerate(violations):
        rp_path = os.path.join(VERIF, "replays", f"{pid}-{tier}-{seed}-{n}.json")
        rp_full = {"property": pid, "kind": kind, "description": desc, "tier": tier, "seed": seed,
                   "prelude": prelude, "replay_cmd": f"./check {pid} --replay {rp_path}"}
        rp_full.update(rp)
        with open(rp_path, "w") as f:
            json.dump(rp_full, f, indent=1)
        suffix = " no-failing-input-found" if kind == "no-failing-input-found" else ""
        print(f"VIOLATION property={pid} replay={rp_path}{suffix}")
        exit_code = 1

    # ---- evidence ----------------------------------------------------------------------------
    shapes = {}
    for c in cases:
        shapes.setdefault(shape_of(pid, c), c)
    samples = []
    for n in po["discharged"][:6]:
        samples.append({"obligation": n})
    for c in list(shapes.values())[:6]:
        samples.append(c.to_json())
    ev = {
        "property_id": pid, "tier": tier, "seed": seed, "level": "proof",
        "coverage": {
            "obligations": max(1, len(po["obligations"])),
            "discharged": len(po["discharged"]),
            "obligation_names": po["obligations"],
            "broken": [{"name": n, "why": w[:300]} for n, w in po["broken"]],
            "checker_cmd": f"cd lean && lake build DnsVerif.Props.{pid} && lake env lean DnsVerif/Audit/{pid}.lean"
                           + (f" && lake env leanchecker DnsVerif.Props.{pid}" if tier == "thorough" else ""),
            "trusted_base": ["Lean 4 kernel"] + [f"axiom {a}" for a in sorted(po["axioms"])]
                            + cfg.get("trusted", []),
            "evaluations": len(cases),
            "distinct_nontrivial": len(shapes),
            "rule": cfg.get("rule", "cases generated by the Go harness from one splitmix64 stream; distinct = distinct (op, output-class) shapes"),
            "correspondence_disagreements": len(corr_bad),
            "property_oracle_failures": len(prop_bad),
            "known_finding_hits": len(known_hits),
            "traces_validated_against_impl": len(cases),
            "samples": samples,
            "generator": gen_stats,
            "distribution": distribution(pid, cases),
            "search": search_info,
            "notes": notes,
        },
        "assumptions": cfg.get("assumptions", []),
        "wall_s": round(time.time() - t_start, 1),
        "violations": len(violations),
    }
    if po.get("leanchecker"):
        ev["coverage"]["leanchecker"] = po["leanchecker"]
    with open(os.path.join(VERIF, "evidence", f"{pid}.json"), "w") as f:
        json.dump(ev, f, indent=1)
    log(f"{pid}: {len(cases)} cases, {len(shapes)} distinct shapes, corr-disagreements={len(corr_bad)} "
        f"oracle-failures={len(prop_bad)} known={len(known_hits)} violations={len(violations)} "
        f"wall={ev['wall_s']}s")
    return exit_code


if __name__ == "__main__":
    sys.exit(main())
