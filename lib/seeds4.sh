#!/bin/bash
# round-4 seeds only
cd "$(dirname "$0")/.."
run() { p=$1; shift
  if ! git -C /repo apply --check "$p" 2>/dev/null; then echo "SEED $p: does not apply any more"; return; fi
  git -C /repo apply "$p"
  for c in "$@"; do
    out=$(./check $c --tier quick 2>&1); rc=$?
    echo "SEED $(basename $(dirname $p))/$(basename $p) $c rc=$rc $(echo "$out" | grep -c '^VIOLATION') violations, nofail=$(echo "$out" | grep -c 'no-failing-input-found') | $(echo "$out" | tail -1 | sed 's/.*cases, //' | cut -c1-120)"
  done
  git -C /repo checkout -- .
}
S=$PWD/seeded
run $S/C01c/patch.diff C01 C02
run $S/C02c/patch.diff C02 C04
run $S/C05c/patch.diff C05
run $S/C07c/patch.diff C07
run $S/C08c/patch.diff C08
run $S/C09c/patch.diff C09
run $S/C10c/patch.diff C10
run $S/C12c/patch.diff C12
run $S/C13c/patch.diff C13 C12
run $S/C03c/patch.diff C03
git -C /repo status --short
echo SEEDS-DONE
