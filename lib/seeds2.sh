#!/bin/bash
# round-2 seeds only
cd "$(dirname "$0")/.."
run() { p=$1; shift
  if ! git -C /repo apply --check "$p" 2>/dev/null; then echo "SEED $p: does not apply any more"; return; fi
  git -C /repo apply "$p"
  for c in "$@"; do
    out=$(./check $c --tier quick 2>&1); rc=$?
    echo "SEED $(basename $(dirname $p))/$(basename $p) $c rc=$rc $(echo "$out" | grep -c '^VIOLATION') violations, nofail=$(echo "$out" | grep -c 'no-failing-input-found') | $(echo "$out" | tail -1 | sed 's/.*cases, //' | cut -c1-120)"
  done
  git -C /repo checkout -- .
}
S=$PWD/seeded
run $S/C01b/patch.diff C01 C09
run $S/C02b/patch.diff C02 C03
run $S/C03b/patch.diff C03
run $S/C05b/patch.diff C05 C06
run $S/C06b/patch.diff C06
run $S/C07b/patch.diff C07
run $S/C15b/patch.diff C15 C08
run $S/C16b/patch.diff C16
run $S/C19b/patch.diff C19
run $S/C20b/patch.diff C20
git -C /repo status --short
echo SEEDS-DONE
