#!/bin/sh
# run the given tier (default thorough) for the given properties, one line of summary each
#   lib/sweep.sh thorough C17 C16 ...
cd "$(dirname "$0")/.."
TIER=$1; shift
for p in "$@"; do
  s=$(date +%s)
  out=$(./check $p --tier $TIER 2>&1); rc=$?
  e=$(date +%s)
  echo "$p rc=$rc $((e-s))s $(echo "$out" | grep -c '^VIOLATION') violations | $(echo "$out" | tail -1 | cut -c1-220)"
done
echo SWEEP-DONE
