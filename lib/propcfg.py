"""Per-property configuration of ./check (what is built, what the harness runs, what is trusted)."""

COMMON_TRUSTED = [
    "fact extractor /verif/extract (go/ast) and correspondence harness /verif/harness",
    "Lean compiler/runtime executing the model definitions in the property's native driver (lean_exe drv_Cxx)",
]

NOT_BUILT_REASON = ("check not built yet in this session (work in progress; see DESIGN.md order of work) - "
                    "the property is decidable by the technique and is planned")

PROPS = {
    "C17": {
        "prelude_ops": ["isprint"],
        "manifest": {
            "text": "Lean 4 theorems bunquote_bquote / bquote_no_comma_colon / bquote_no_newline / bquote_injective over a "
                    "byte-exact model of Bquote/Bunquote (incl. strconv.Quote, UnquoteChar, UTF-8 decode/encode) for every byte "
                    "string and every IsPrint predicate; the model is tied to the code on every run by a differential run (all "
                    "strings of length <= 2 plus structured random ones) against the real quote package",
            "note": "Trusted: Lean kernel, axioms propext/Classical.choice/Quot.sound, the correspondence harness; Go's IsPrint "
                    "table enters as a parameter (newline theorem assumes IsPrint(10)=false, checked on the real table each run).",
        },
        "trusted": COMMON_TRUSTED + [
            "Go strconv.IsPrint enters the model as a parameter (theorems hold for every predicate); "
            "utf8.DecodeRune/EncodeRune, strconv.Quote/UnquoteChar, bytes.ReplaceAll are modelled in Lean and "
            "validated by the correspondence",
        ],
        "rule": "all byte strings of length <= 2 exhaustively (thorough: plus all 3-byte strings starting a "
                "multi-byte sequence), then structure-aware random strings to length 64 from one splitmix64 stream; "
                "distinct = distinct (op, output shape with hex runs collapsed) classes",
        "assumptions": ["strconv.IsPrint is false on ',' ':' and control characters only matters for the "
                        "no-separator theorem and is stated there as a hypothesis; checked on Go's table by the correspondence"],
    },
    "C15": {
        "manifest": {
            "text": "Lean 4 refinement proof: the byte-level model of the RocksDB multi-value store (length-prefixed chunk codec, "
                    "Add, Del, Batch with getAffectedKeys/integrate, ForEach) refines the specification 'map from key to list of "
                    "values' for every history of Add/Del/batch (history_refines, by induction over the operation list; "
                    "batch_refines: a batch equals all additions then all deletions and a failing batch changes nothing). The model "
                    "is tied to the code by running the same histories (exhaustive to length 4/5 over 2 keys x 3 values, random long "
                    "ones with batches, backup/restore steps) on a real RocksDB and diffing results and dumps.",
            "note": "Trusted: Lean kernel + standard axioms; RocksDB Get/Put/Delete/GetMulti/WriteBatch atomicity and the backup "
                    "engine are external (backup+restore is modelled as the identity and only checked by dump equality - partial); "
                    "Go's unstable sort.Slice is modelled as a stable sort and results are compared as multisets per key.",
        },
        "trusted": COMMON_TRUSTED + [
            "RocksDB (Get/Put/Delete/GetMulti/WriteBatch, backup engine) is external: modelled as an abstract key-value map; "
            "backup+restore modelled as identity",
            "sort.Slice (unstable) modelled as stable insertion sort; values compared as per-key multisets",
        ],
        "rule": "exhaustive Add/Del histories over 2 keys x 3 values (empty, 'a', 'ab') to length 4 (quick) / 5 (thorough); "
                "random histories to length 400 with batches of 0-50 ops over 4 keys and 6 + random values; every 50th history on "
                "its own database with backup/restore steps; raw malformed chunk decoding; distinct = distinct (op, result-shape)",
        "assumptions": ["values shorter than 2^32 bytes (uint32 length prefix)"],
    },
    "C16": {
        "shrink": True,
        "manifest": {
            "text": "Lean 4 theorems, byte level end to end: find_written / find_written_hashfn (for every entry list, every "
                    "hash function incl. total collisions, the reader's FindNext loop on the bytes produced by the writer returns "
                    "exactly the values stored under the key, in insertion order), find_absent (nothing else), find_in_order, "
                    "find_no_leak (colliding keys do not leak), findNext_iterates (iteration ends by EOF, never by panic), "
                    "find_first, writeFile_size; the table core probe_find_all / buildTable_has_free; makeParse_dumpText (Dump text "
                    "parses back to exactly the pairs). The byte-exact Lean model of writer/reader/dump is tied to the code on every "
                    "run: file image byte-identical (FNV digest), FindNext iteration for present/absent keys, Dump text, Dump->Make "
                    "identity, on databases of 0..20000 (thorough 65000) pairs with crafted bucket and full-hash collisions and "
                    "record sizes around I/O buffer boundaries.",
            "note": "Trusted: Lean kernel + standard axioms; spooky hash is external (each key's real hash is passed to the model; "
                    "theorems hold for every hash function); mmap is trusted. Forced hypotheses: file size, hashes and key length "
                    "below 2^32 (the real writer does not check the size bound: positions wrap silently beyond 4 GiB - an "
                    "observation, such files are not generated). Dump of a written file is covered by the correspondence only.",
        },
        "trusted": COMMON_TRUSTED + [
            "spooky.Hash32 external: real hashes passed to the model, theorems quantify over all hash functions",
            "mmap / file I/O",
        ],
        "rule": "empty and singleton databases, repeated keys, brute-forced full 32-bit hash collisions, single-bucket chains "
                "of 1..600 keys with absent same-bucket probes, record sizes around 2048/4096/8192-byte boundaries, random "
                "multisets of 0..6000 pairs, one (thorough: three) database(s) of 20000..65000 pairs; distinct = distinct "
                "(op, output shape)",
        "assumptions": ["total file size below 2^32 bytes (uint32 positions)"],
    },
    "C19": {
        "run_timeout": 1800,
        "manifest": {
            "text": "Lean 4 theorems for the sampled-metric half of the property: window_spec (for every timed history of Add "
                    "calls and cleaner ticks with a monotone clock the window holds exactly the samples not expired at the last "
                    "tick, in order), window_only_added (no value that was never added, no spurious zero), window_keeps_live, "
                    "export_spec (min/max attained and bounding, avg = truncated sum/len between them), export_empty. "
                    "Counters and query log: query_and_type_counted_once, write_counters_truthful (NXDOMAIN/REFUSED/BADVERS/"
                    "NODATA/non-authoritative counters are exactly determined by the message sent), outcome_counted_at_most_once, "
                    "logged_once_iff_composed, cache_counter_follows_path, counter_sum over Model/Stats.lean. "
                    "Correspondence: real sliding windows (verif-tag constructor with chosen lifetime) driven on real time in "
                    "parallel against the model, Stats.Get against exportOf, and query streams (every response class, cache "
                    "hits by repetition) served by a real handler wired to recording Stats and Logger implementations, "
                    "per-query counter multisets and logger calls compared with the model and the logged message compared "
                    "with the message really sent.",
            "note": "Trusted: Lean kernel + standard axioms; Go time/ticker (window correspondence runs on real time with "
                    "events kept 150 ms away from tick and expiry instants; a case whose schedule slipped > 50 ms is skipped and "
                    "counted); sort.Slice modelled as insertion sort (min/max/sum are permutation invariant, proved).",
        },
        "trusted": COMMON_TRUSTED + [
            "Go runtime timers: the cleaner ticks once per second from window creation; real-time correspondence with margins",
        ],
        "rule": "80 (thorough 1800) windows with random lifetimes 1.15-2.55 s, 1-7 timed adds and 1-4 timed queries each, run "
                "concurrently on real time; 400 (thorough 5000) Stats.Get cases over 1-9 samples incl. negative and large values; "
                "distinct = distinct (op, output shape)",
        "assumptions": ["monotone clock"],
    },
    "C06": {
        "manifest": {
            "text": "Lean 4 invariant proof over a state-machine model of db.DB reference counting, DB.Reload (goroutine, timeout "
                    "branch, destroyNewDbi handshake, validation) and FBDNSDB.Reload/AcquireReader/Close: for every operation "
                    "sequence of any length with any number of readers and timed-out reload goroutines, no backend is closed "
                    "twice or touched after close, the served backend and every reader's backend stay open, and every backend "
                    "that is no longer served, held or in use has been closed (life_all, quiescent_closed_once). Tied to the code "
                    "by replaying op sequences (exhaustive to depth 3/4 over 16 ops, random to length 60) on the real "
                    "dnsserver/db code over an instrumented fake DBI (verif-tag constructor) and comparing per-backend "
                    "close/bad-use counts, plus liveness probes.",
            "note": "Trusted: Lean kernel + standard axioms; Go scheduler for the reload goroutine/timeout race (both orders give "
                    "the same observable state; the harness waits for quiescence); the fake DBI mirrors which calls of the real "
                    "drivers touch the receiver (a catch-up works on the receiver for its whole duration, a switch does not).",
        },
        "trusted": COMMON_TRUSTED + [
            "instrumented fake db.DBI in the harness stands for CDB/RocksDB handles; real drivers' Reload touch pattern transcribed",
        ],
        "rule": "all sequences over 16 ops (acquire, use i, release i, reload new/same ok, open error, validation failure "
                "new/same, timeout with finished/pending new/same/failing goroutine, late completion, shutdown) to depth 3 "
                "(thorough 4), plus 3000 (thorough 40000) random sequences of length 4-60; distinct = distinct (op, final "
                "state summary)",
        "assumptions": ["no new query is started after shutdown"],
    },
    "C11": {
        "manifest": {
            "text": "Lean 4 theorems over a transcription of db.Wrs (both Add branches, weight-0 skip, counters; every sampled item "
                    "is served) with keys in an arbitrary linear order and NO hypothesis on keys or draws: wrs_topk (kept = the "
                    "min(max,n) largest keys, a sub-multiset of the candidates), tie lemmas, wrs_sound, wrs_bounded, fam_count, "
                    "wrs_count (exactly min(max, #positive-weight) records per family, each from a positive-weight candidate), "
                    "weight0_never_served, answer_spec, zero_weight_only, zero_weight_name_exists, weighted_flag, "
                    "additional_max_one, count_full (every key function, weight and draw; false before the repair at draws 0 / "
                    "2^32-1); es_single_winner (the Efraimidis-Spirakis integral behind proportionality). Correspondence: the real "
                    "db.Wrs driven through a scripted rand source (verif-tag hook), selected sets compared with the model "
                    "computing keys with Float; the oracle also checks that weight-0 candidates consume no draw.",
            "note": "Trusted: Lean kernel + standard axioms; math.Pow/Lean Float agreement (near-ties within 1e-12 are skipped "
                    "and counted); Shuffle order not modelled (sets compared). Proportionality of the real PRNG stream is a "
                    "chi-square TEST (alpha 1e-6, 2e5 draws, incl. weights up to 2^32-1), labelled as a test; only the integral "
                    "identity is proved. Concurrent use of the shared generator is C14's lock table.",
        },
        "trusted": COMMON_TRUSTED + [
            "math.Pow vs Lean Float.pow (driver only; no theorem mentions floats); rand.Shuffle not modelled",
            "proportionality: statistical test only",
        ],
        "rule": "exhaustive lists of size 1-3 over weights {0,1,2} x draws {0,1000,2^31,4e9,2^32-1}; all single and pair cases over "
                "weights {0,1,2,1000,2^32-1} x draws {0,1,2^32-2,2^32-1}; 6000 (thorough 150000) random sets of size 1-12, max "
                "1..8 (and 0, -1), both families plus an unsupported type, draws including 0 and 2^32-1; 1000 mostly-edge-draw "
                "sets; 7 chi-square runs; all with the full oracle; distinct = distinct (op, output shape)",
        "assumptions": ["keys form a linear order (no property of math.Pow is used by the count / weight-0 theorems)"],
    },
    "C14": {
        "race_build": True,
        "search_tier": "search",
        "search_seeds": 3,
        "shrink": False,
        "run_timeout": 3600,
        "manifest": {
            "text": "Lean 4: a generic theorem lockset_no_race over an interleaving semantics of mutex/RWMutex-protected "
                    "accesses (any number of threads, any schedule), and table_guarded / table_no_race / lock_order_acyclic / "
                    "table_covers_fields proved by kernel evaluation over the WHOLE access table of the shared fields "
                    "(FBDNSDB.dnsdb, dbConfig.Path, DB.refCount/destroyable/dbi, IteratorPool.*, Stats.*, slidingWindow.samples, "
                    "lockedSource.src ...: 77+ rows with the locks syntactically held) and the lock-order edges, both "
                    "re-extracted from the current Go source by a go/ast analysis on every run (fail-closed on lock shapes it "
                    "does not recognise). Search for a failing schedule: the harness built with -race stresses N query workers x "
                    "partial/full reloads x stats reporting x shutdown on CDB and RocksDB; any race report, crash or stall is a "
                    "violation with the report as replay.",
            "note": "Partial: the extractor is syntactic and limited to this repository's Go files (cgo/RocksDB, golang-lru, miekg "
                    "are outside); init-phase and caller-context expectations and the interface dispatch table are hand-written; "
                    "channel hand-off is trusted as synchronising; a clean -race run is exploration, never the proof.",
            "technique": "Lean 4 proof (generic lockset theorem + kernel-decided table regenerated from source by go/ast) + -race stress as search",
        },
        "trusted": COMMON_TRUSTED + [
            "lock-region extractor /verif/extract/lockfacts.go (syntactic; hand-written init-phase / caller-context expectations)",
            "Go race detector used only as the search for a failing schedule",
        ],
        "rule": "2 stress runs (cdb, rocksdb v2 keys) of 10 s (thorough 120 s) with 4-10 query workers, a reloader alternating "
                "partial and full reloads over pre-built generations, backend-stats and Stats.Get reporters, then Close, under "
                "the Go race detector; distinct = backend",
        "assumptions": [],
    },
    "C18": {
        "manifest": {
            "text": "Lean 4 theorems over a model of svcb.ParamList (FromText with its seven value marshallers, ToWire, ToText; "
                    "after the repairs of empty-segment handling and alpn id lengths) and an independent RFC 9460 wire reader: "
                    "keys_strictly_increasing and _wire; accepted_is_valid_declaration and decode_recovers_declared (every accepted "
                    "text is a valid declaration over all its non-empty segments and the RFC reader recovers exactly it from the "
                    "emitted bytes); mandatory_rejects (all segments); text_wire_idempotent_partial (print -> parse gives the same "
                    "list for every accepted text without an IPv4-mapped ipv6hint, incl. proved IP.String/ParseIP, "
                    "FormatUint/ParseUint, base64 round trips); text_wire_idempotent_full kept as def with proved negation (open "
                    "finding C18-ipv6hint-mapped, pinned by the package's own test). Correspondence: the real FromText/ToWire/ToText "
                    "output-for-output (wire bytes, text, error class); miekg/dns unpack/repack of a full HTTPS RR as a second "
                    "independent decoder; all key orders; empty segments anywhere, alpn ids of length 0 / 256+ (must be rejected).",
            "note": "Partial: Go library calls (ParseIP, ParseUint, base64, Split, SliceStable) are Lean models validated on the "
                    "generated grammar; values >= 2^16 bytes are excluded by hypothesis (Fits); IPv4-mapped ipv6hints are excluded "
                    "from generation (open finding, witness in corpus).",
        },
        "trusted": COMMON_TRUSTED + [
            "net.ParseIP / IP.String / strconv.ParseUint / base64 / bytes.Split / sort.SliceStable modelled in Lean, validated by correspondence",
            "miekg/dns SVCB unpacking used as a second decoder in the harness",
        ],
        "rule": "all 3-subsets of the seven keys in every order (thorough: all 7! orders twice) x random values over boundary "
                "pools (ports 0/1/65535, 8 IPv4 / 17 IPv6 text forms, alpn ids 1..255 bytes, ech 1..70 bytes, quoting modes), "
                "invalid mandatory lists, malformed stream, empty segments, empty / over-long alpn ids; IPv4-mapped ipv6hints "
                "excluded (open finding); distinct = distinct (op, output shape)",
        "assumptions": ["parameter values shorter than 2^16 bytes"],
    },
    "C07": {
        "shrink": False,
        "run_timeout": 3600,
        "manifest": {
            "text": "Lean 4 theorems over models of the parallel parser (any worker interleaving), the RocksDB builder (sort, "
                    "createBuckets, per-bucket SST, ingest), the batch compiler (any batch size and execution order, via C15's "
                    "batch_refines) and the CDB writer, all over the real codec's per-line records: parse_order_irrelevant, "
                    "createBuckets_partition / _no_split (for every minBucketSize, maxBucketNum >= 1: contiguous, covering, "
                    "non-empty, never separating equal keys), builder_eq_spec, batches_eq_spec (every batch size, every "
                    "BatchNumParallel incl. 0 = unlimited - a hang before the repair -, every execution order), cdb_eq_spec, compile_error_iff, "
                    "compile_config_independent. Correspondence: real CreateCDB / CompileToRDB (v1/v2 x builder/batches x "
                    "BatchSize x BatchNumParallel x NumCPU) on generated files incl. one > 30000 (thorough > 70000) records so the "
                    "builder splits buckets and files with a rejected line; all dumps agree with each other, the model and "
                    "compileSpec (record/key counts + FNV-64 of the canonical dump).",
            "note": "Partial: goroutine schedules of the real worker pools are sampled (the theorems cover all permutations of the "
                    "model); the line codec, accumulator and features record enter as the real code's output (codec itself: C09/C01); "
                    "RocksDB SST writer/ingest and Get/Put/WriteBatch are abstract (C15).",
        },
        "trusted": COMMON_TRUSTED + [
            "RocksDB SST writer / ingestion / write batches abstract; per-line codec output taken from the real Codec.ConvertLn",
        ],
        "rule": "6 small files x 3 codec classes (two with a rejected line at first/middle/last position) + one file of ~36000 "
                "records (thorough: 60+ files and one of ~75000 records), each really compiled under 6-12 configurations; "
                "distinct = distinct (class, configuration set, digest)",
        "assumptions": ["values shorter than 2^32 bytes (SmallStream)"],
    },
    "C01": {
        "manifest": {
            "text": "Lean 4: Spec/Answer.lean states the property over records (REFUSED / referral / authoritative answer, "
                    "wildcard scope, NXDOMAIN, SOA in empty answers); Model/Codec.lean + Model/Serve.lean transcribe the line codec "
                    "and the query path. Props/C01.lean (29 theorems): extracted constants = documented defaults "
                    "(facts_match_spec, spec_defaults_match_facts, default_ttl_*, name_expansion_* by kernel evaluation of the model "
                    "codec); row round trip extractRR_putrrhead; the four sentences of the statement as corollaries of Spec.answer "
                    "(spec_refused_iff, spec_nxdomain_iff, spec_no_records_iff, spec_empty_auth_has_soa, spec_wildcard_scope, "
                    "spec_referral); refinement serve_v1_refines_spec: on any store representing a WellFormed record list under v1 "
                    "keys (CDB, RocksDB v1), for every lower-case storable query name, every type (DS included), class, answer limit "
                    "and client location the handler model equals Spec.answer in all four sections; C02's serve_v2_eq_v1 carries it "
                    "to v2 keys. Pipeline: convertLine_shaped (all 16 line types) and compile_representsAt (the store the model "
                    "compiler builds from a file holds exactly the rows of the records the Spec side decodes from it), hence "
                    "file_served_as_declared: for every data file the model compiles (CDB, RocksDB v1) and every query, the handler "
                    "model answers Spec.answer of the file's declared zone; file_served_as_declared_v2 the same for RocksDB v2 keys "
                    "(file_compiled_v2_canonical, file_represents_declared_v2) and file_served_alike_all_layouts (the stores compiled "
                    "from one file under the three layouts answer every query alike); answer_perm_invariant / answer_viewSort_invariant / "
                    "file_served_as_declared_file_order: the answer depends on the multiset of declared records only (sections up "
                    "to permutation), so the file order may be used. Correspondence on every run: generated data files compiled by the real cdb/rdb compilers into CDB "
                    "(combined and per-family prefix sets), RocksDB v1 and v2, queried through ServeDNSWithRCODE; implementation = "
                    "model = Spec per query (sections as RR sets, address records relationally), plus pairwise agreement of the "
                    "four storage configurations.",
            "note": "Partial: forced hypotheses (each with a kernel-checked counterexample) SoaHasNs, NsParse, TargetsOK "
                    "(additional-section targets lower-case and distinct; serve_v1_refines_spec_anycase / "
                    "file_served_as_declared_anycase need only TargetsLowOK = distinct after lower-casing and conclude equality up to "
                    "the case of additional owner names), LinesOK (a generic ':' line of type A/AAAA has at least 4 "
                    "rdata bytes), LinesV2OK (labels shorter than 256 bytes: putreverseddom writes an over-long label whole where "
                    "putdom truncates it - illegal names only), TagOK (the client location is not one of the three 2-byte key markers), SoaDet for arbitrary "
                    "permutations; the model codec is tied to the real one by the correspondence (and C09), not by a theorem; "
                    "typed-RR (un)packing by miekg is compared on the wire; files violating SoaHasNs get no Spec verdict.",
        },
        "trusted": COMMON_TRUSTED + [
            "miekg/dns packing/unpacking of typed RRs and name compression (responses compared on the wire, rdata as re-packed bytes)",
            "net.ParseIP/ParseCIDR, strconv.ParseUint modelled in Lean on the grammar they accept, validated by the codec correspondence",
            "RocksDB / CDB present the ordered multimap interface of Model/Store.lean (C15, C16, C07)",
        ],
        "rule": "40 (thorough 1500) generated data files (1-3 zones, nested zones, delegations with in/out-of-zone glue, all line "
                "types with optional fields, wildcards, escapes, half of them with locations/maps/subnets) x 40 queries built "
                "from the file's own names (exact, ancestors, children, non-wild-safe labels at the leaf and in the middle of the "
                "absent part, case-flipped, unrelated, root) x 15 qtypes x classes x max-answer 1-4 on 4 storage configurations; "
                "16 default-TTL lines; distinct = distinct (op, output shape)",
        "assumptions": ["data files satisfy WellFormed (DESIGN.md section 6 C01)"],
    },
    "C02": {
        "manifest": {
            "text": "Lean 4 (Props/C02.lean, 25 theorems): order lemmas for reversed-name keys (O1 ancestor below descendant "
                    "regardless of location, O3 sandwich, O4 common-label-prefix arithmetic), findMapSorted_eq_findMapV1 (closest-key "
                    "map lookup = label-by-label lookup, incl. wildcard map at the queried name and the root wildcard), "
                    "isAuthoritativeV2_eq_V1 (literal equality of ns / auth / zone cut), findAnswerV2_eq_V1(_at_cut), "
                    "findSOA/getNs/rowsOf_v2_eq_v1 and the end-to-end serve_v2_eq_v1: for stores representing the same rows under "
                    "v2 and v1 keys, every query name, type, class, limit and client location gets the same reply (all sections) "
                    "from the two handler models; v2_store_represented / serve_v2_eq_v1Of instantiate it for every canonical v2 "
                    "store. CDB and RocksDB v1 share the reader (equal by construction of the model). Correspondence on every run: "
                    "the four real storage configurations must agree pairwise on every query (this needs no model) and with model "
                    "and Spec, on files with adversarial key neighbourhoods (sibling labels that are byte-prefixes of each other, "
                    "the same name in several locations, deep names, maps in every shape, non-wild-safe labels anywhere in the "
                    "jumped part of the name).",
            "note": "Partial: forced hypotheses RowsOKAt (visible rows not truncated) and TargetsOKAt (NS/MX target labels <= 64 "
                    "bytes; serve_v2_eq_v1_without_targets_false shows it cannot be dropped); per-request context cache and RocksDB "
                    "iterators are covered by the correspondence only; compiler option independence is C07.",
        },
        "trusted": COMMON_TRUSTED + [
            "miekg/dns packing/unpacking of typed RRs and name compression (responses compared on the wire, rdata as re-packed bytes)",
            "net.ParseIP/ParseCIDR, strconv.ParseUint modelled in Lean on the grammar they accept, validated by the codec correspondence",
            "RocksDB / CDB present the ordered multimap interface of Model/Store.lean (C15, C16, C07)",
        ],
        "rule": "30 (thorough 800) adversarial data files x 40 queries x 3 resolvers on 4 storage configurations; distinct = "
                "distinct (op, output shape)",
        "assumptions": ["well-formed data files; at most one map id per (map type, owner)"],
    },
    "C03": {
        "manifest": {
            "text": "Lean 4 (Props/C03.lean, 24 theorems): Spec.lpm (longest declared subnet of the client's family containing "
                    "it, not longer than the client's prefix) and Spec.mapFor; cidr_laminar, containing_chain, lpm_spec / "
                    "lpm_none_iff / lpm_unique; mapFor_exact_before_wildcard, mapFor_nearest_wildcard, findMapV1_eq_mapFor; "
                    "CDB: getLocationCdb_eq_lpm / _none_iff; RocksDB: sweep_invariant and rearrange_lpm (for every well-formed "
                    "subnet set the range points the rearranger emits answer every client prefix with the longest-prefix "
                    "match), rearrange_lpm_store / _db (through the stored keys and the SeekForPrev lookup with the "
                    "range-point key check), client_masked, checkTable_sound (a verified table checker), proved negative "
                    "witnesses w2_needed / w3_needed / w3_error for the well-formedness conditions. Correspondence: random "
                    "subnet sets (nested chains, adjacent blocks incl. non-sibling neighbours, edges of the address space, "
                    "blocks touching ::ffff:0:0/96) compiled into all four storage configurations; Reader.FindLocation at "
                    "every breakpoint x client prefix lengths (resolver and ECS, incl. raw ECS options with host bits set) = "
                    "model = Spec.lpm, and pairwise equal.",
            "note": "Hypotheses W1-W3 (DESIGN.md section 6 C03) are enforced by the generator and are explicit in the theorems.",
        },
        "trusted": COMMON_TRUSTED + [
            "miekg/dns packing/unpacking of typed RRs and name compression (responses compared on the wire, rdata as re-packed bytes)",
            "net.ParseIP/ParseCIDR, strconv.ParseUint modelled in Lean on the grammar they accept, validated by the codec correspondence",
            "RocksDB / CDB present the ordered multimap interface of Model/Store.lean (C15, C16, C07)",
        ],
        "rule": "60 (thorough 3000) subnet sets of 0-80 blocks x up to 120 clients (block start/end and their neighbours x "
                "prefix lengths around the declared one, random clients) on 4 storage configurations; distinct = distinct (op, "
                "output shape)",
        "assumptions": ["W1 no duplicate (network,length); W2 network :: or 0.0.0.0 only as default route; W3 no IPv6 block "
                        "other than ::/0 contains ::ffff:0:0/96"],
    },
    "C04": {
        "manifest": {
            "text": "Lean 4: spec_frame / spec_foreign_edit_invariant (the Spec answer is a function of the records visible to "
                    "the client's location), serve_v1_frame (two stores that agree on the keys tagged with the client's "
                    "location or untagged give the same response to every query) and serve_v2_frame (the same for canonical v2 "
                    "stores, through C02's serve_v2_eq_v1; foreign rows may be anything, including malformed), each with a "
                    "concrete pair of stores that differ in a foreign location. Correspondence (metamorphic, implementation vs "
                    "implementation): a file and an edit of it that touches only records of a foreign location or unrelated "
                    "maps; every response to a client at location L must be identical before and after, on all four storage "
                    "configurations, and equal model and Spec.",
            "note": "Partial: serve_v2_frame needs canonical v2 keys (what the compiler writes); the variant for arbitrary v2 "
                    "stores (serve_v2_frame_full) is an open def, neither proved nor refuted.",
        },
        "trusted": COMMON_TRUSTED + [
            "miekg/dns packing/unpacking of typed RRs and name compression (responses compared on the wire, rdata as re-packed bytes)",
            "net.ParseIP/ParseCIDR, strconv.ParseUint modelled in Lean on the grammar they accept, validated by the codec correspondence",
            "RocksDB / CDB present the ordered multimap interface of Model/Store.lean (C15, C16, C07)",
        ],
        "rule": "30 (thorough 800) (file, foreign edit) pairs x 40 queries from a client mapped to location aa; edits: add "
                "A/NS/SOA/CNAME/TXT/wildcard records tagged ff at and above queried names, unrelated maps and subnets; "
                "distinct = distinct (op, output shape)",
        "assumptions": [],
    },
    "C10": {
        "manifest": {
            "text": "Lean 4 (Props/C10.lean, 30 theorems): on the Spec: locate_eq, locate_no_ecs, scope_zero_without_map, "
                    "scope_default(_untagged), scope_winner, scope_some_iff, resolver_fallback, scope_bounds (the echoed scope "
                    "never exceeds 32/128 and is the matched subnet's length), scope_le_source (a matched scope never exceeds the "
                    "source length sent), scope_independent_of_resolver; on the model of Reader.EcsLocation / "
                    "FindLocation / the handler's OPT assembly: ecsLocation_eq, ecs_scope_model, findLocation_eq, "
                    "ecs_scope_no_map / _default / _found(_untagged), top_none, top_ecs_none / _location / _fail, "
                    "top_scope_model, top_resolver_fallback, ecs_fields_unchanged (family, source length and address are "
                    "echoed as sent), top_depends_only_on_query, scope_truthful_cdb(_value), scope_truthful_rdb. "
                    "Correspondence: queries with/without OPT, ECS family 1/2/0, source lengths, non-zero query scope, extra "
                    "options (cookie, NSID, unknown), against map/subnet configurations on four storage configurations, with "
                    "the response cache off and on (the same question from clients with different OPT/ECS); OPT presence, ECS "
                    "fields and scope of every response (incl. REFUSED and cached paths) = model = Spec.",
            "note": "BADVERS replies carry the bare OPT built by coredns (no ECS): outside the statement's 'response' as the "
                    "handler composes it; recorded in DESIGN.md.",
        },
        "trusted": COMMON_TRUSTED + [
            "miekg/dns packing/unpacking of typed RRs and name compression (responses compared on the wire, rdata as re-packed bytes)",
            "net.ParseIP/ParseCIDR, strconv.ParseUint modelled in Lean on the grammar they accept, validated by the codec correspondence",
            "RocksDB / CDB present the ordered multimap interface of Model/Store.lean (C15, C16, C07)",
        ],
        "rule": "30 (thorough 800) files with maps/subnets x 40 queries with EDNS/ECS variety, each file also with the response cache on (op servecsc: 12 questions x 2-3 clients with different OPT / client-subnet options); distinct = distinct (op, output shape)",
        "assumptions": ["subnets well-formed (C03 W1-W3)"],
    },
    "C13": {
        "manifest": {
            "text": "Lean 4: serve_v1_never_panics (for every store and every wire-valid query name the v1 query path never reaches "
                    "a Go panic), serve_v2_never_panics / serve_v2_reply_or_none for every canonical v2 store and every query with "
                    "labels of at most 63 bytes (both hypotheses forced: serve_v2_can_panic_on_malformed_store / _on_overlong_label), "
                    "serve_v2_outcome_is_v1, reply_shape. Correspondence: wire-valid "
                    "messages (root, 120-label names, 63-byte labels, any type/class, EDNS versions 0/1/255, option lists, ECS "
                    "contents incl. family 0) passed through Pack/Unpack and then the real handler under recover, against "
                    "{empty database, root zone, root delegation, generated files} x four storage configurations: no panic, "
                    "reply has the query's ID/question/QR, BADVERS for unsupported versions, = model = Spec.",
            "note": "Partial: packability, truncation and size accounting are miekg/coredns code (explored in C20, not proved).",
        },
        "trusted": COMMON_TRUSTED + [
            "miekg/dns packing/unpacking of typed RRs and name compression (responses compared on the wire, rdata as re-packed bytes)",
            "net.ParseIP/ParseCIDR, strconv.ParseUint modelled in Lean on the grammar they accept, validated by the codec correspondence",
            "RocksDB / CDB present the ordered multimap interface of Model/Store.lean (C15, C16, C07)",
        ],
        "rule": "30 (thorough 600) databases (8 special, the rest generated) x 40 queries incl. 10 extreme ones each; distinct = "
                "distinct (op, output shape)",
        "assumptions": [],
    },
    "C20": {
        "shrink": False,
        "run_timeout": 3600,
        "manifest": {
            "text": "Lean 4 theorems over a model of the listener handler chain (question guard -> max-answer context -> optional "
                    "RFC 8482 ANY refusal -> optional whoami -> database handler as a PARAMETER): chain_transparent (for an "
                    "arbitrary database handler the chain returns exactly its answer under the listener's max-answer unless the "
                    "query is ANY under refusal, names the whoami domain or has no question), any_refused / _content / "
                    "_independent (exactly one HINFO \"RFC 8482\" \"\" IN 86400, nothing from the database), "
                    "no_question_failure, chain_no_panic, listener_no_question, whoami_only_on_match, oversize_truncated / "
                    "tcp_complete over an abstract truncation rule. Correspondence: a real fbserver on loopback (4 listeners = "
                    "max answer 1-4, UDP with buffers none/512/1232/4096 and TCP) against in-process FBDNSDB.ServeDNS and "
                    "whoami.Handler on the same database; hand-built header-only packets.",
            "note": "Partial: sockets, the miekg server loop, wire packing and dns.Msg.Truncate are runtime/library behaviour, "
                    "explored at run time (raw length and TC checked) not proved; whoami content is a parameter.",
        },
        "trusted": COMMON_TRUSTED + [
            "miekg/dns server loop, accept filter, Truncate; coredns request.Scrub/SizeAndDo: transcribed as labelled library layers or abstract rules",
        ],
        "rule": "40 (thorough 400) databases x ~36 query tokens each over 4 listeners x {UDP none/512/1232/4096, TCP} incl. ANY, "
                "whoami names, a >1500-byte TXT RRset, a 4-address name, header-only packets; distinct = distinct (op, output shape)",
        "assumptions": [],
    },
    "C09": {
        "prelude_ops": ["isprint"],
        "manifest": {
            "text": "Lean 4 theorems over a record-level model through which the validated line codec factors "
                    "(convertLine_factors): parse_marshal (for well-formed records of all 17 line types, B/H included, any serial "
                    "incl. explicit 0, single-label FQDN servers, catch-all maps, literal '*' labels behind empty ones: the "
                    "re-serialised text decodes to the same record), hence compile_marshal_parse and marshal_idempotent; "
                    "fields_resplit / quoted_field_has_no_separator (from C17); rangepoint_text_roundtrip; "
                    "accumulator_line_compiles; preprocess_preserves_compile (an accepted file and its preprocessed form compile to "
                    "the same list of records). Seven defects of the printers / preprocessor found by the model were repaired in "
                    "/repo (the former negative witnesses are now positive examples). Correspondence: real DecodeLn -> MarshalText "
                    "-> DecodeLn+MarshalMap -> MarshalText on generated lines of all 17 types, and real preprocessing of whole "
                    "files vs compile of the original (RocksDB codec), with every formerly excluded class generated.",
            "note": "Partial: WF assumes names without empty labels and no label whose quoted form reaches 256 bytes "
                    "(text_normal_form_full_false: a 64-byte label of NULs, outside DNS's 63-byte limit), the net.IP and "
                    "svcb.ParamList text round trips (C18) enter as hypotheses; general name normalisation (a.b. / .ns.) is covered "
                    "by the computable check and the correspondence, not by a theorem.",
        },
        "trusted": COMMON_TRUSTED + [
            "net.IP.String / ParseIP round trip (hypothesis IpOK, brute-forced and checked by correspondence)",
        ],
        "rule": "3000 conv + 6000 norm + 250 prep cases per quick run (thorough 100k/150k/5k): lines of all 17 types with every "
                "optional field independently present/absent/0, both separators, escapes, wildcard owners, locations, "
                "IPv4/IPv6/mapped, '.*.' names, empty/one-character/comment/blank-prefixed lines, explicit serial 0, '*.' "
                "targets and maps, maps with 55-255 disjoint subnets; distinct = distinct (op, output shape)",
        "assumptions": ["well-formed records (WF predicate in Props/C09.lean)"],
    },
    "C05": {
        "shrink": False,
        "run_timeout": 3600,
        "manifest": {
            "text": "Lean 4 theorems over the reload state machine Srv (served handle, path, per-instance content, disk per path, "
                    "in-flight queries), each for EVERY interleaving of query starts / reads / finishes, reloads and publishes: "
                    "visibility (+ reload_installs, visibility_exact), partial_follows_last_switch, failed_reload_is_noop_partial "
                    "(+ missing_path / new_instance versions), generations_monotone, single_generation_new_instance / _cdb / "
                    "_partial; the full statements single_generation_full and failed_reload_is_noop_full are kept as defs with "
                    "proved negations (same-path RocksDB catch-up, known findings); atomicity of acquire vs reload is decided by "
                    "kernel evaluation over the lock table re-extracted from the source. Correspondence: a deterministic "
                    "scheduler runs the real FBDNSDB step by step at the verif-tag yield points under a model-derived "
                    "enabledness relation; per-section generation stamps of every response, reload error classes and the final "
                    "path are compared with the model replaying the same schedule (CDB and RocksDB; full, partial, missing, "
                    "corrupt, validation-failing and timing-out reloads).",
            "note": "Partial: free-running (no yield points) stress is exploration only and shared with C14; response cache "
                    "(C12) and reference counting (C06) are separate models; RocksDB primary/secondary semantics trusted.",
        },
        "trusted": COMMON_TRUSTED + [
            "RocksDB secondary catch-up semantics; goroutine identification via runtime.Stack in the scheduler",
        ],
        "rule": "exhaustive interleavings of 1 query x 1 reload (x publish) on CDB, 60 (thorough 1500) sequential schedules with the response cache on (cdbc/rdbc), plus random schedules up to 4 queries x 3 "
                "reloads x 3 publishes on CDB and RocksDB (quick ~1160 schedules, thorough ~29700); distinct = distinct (op, "
                "output shape)",
        "assumptions": ["publishes never lower a generation at a path (forward)"],
    },
    "C08": {
        "shrink": False,
        "run_timeout": 3600,
        "manifest": {
            "text": "Lean 4 theorems over a model of dnsdata/rdb ApplyDiff with the line codec as a black box (so both key layouts "
                    "are covered): applyDiff_eq_compile / applyDiff_eq_fresh_compile (for any store holding, up to value order, "
                    "the database of file A and any diff whose +/- payloads satisfy A + plus = B + minus as multisets of the lines "
                    "reaching the codec, in any line order, ApplyDiff succeeds and the store holds key by key the value multiset of "
                    "compile(B)), applyDiff_chain (induction over any chain of diffs), applyDiff_all_or_nothing(_malformed) and "
                    "applyDiff_absent_record_fails (error, nothing written), applyDiff_order_irrelevant(_error); "
                    "applyDiff_eq_compile_rawLines: the full statement over RAW file lines, proved (ApplyDiff filters payloads "
                    "like the compiler since the repair: leading blanks trimmed, payloads under 2 bytes and # payloads skipped). "
                    "Correspondence: real Preprocess + real rdb compiler + real ApplyDiff on generated file pairs and chains "
                    "(duplicate lines, several values per key, moving range points, failing steps of every kind), patched database "
                    "compared with a fresh compile of B (sorted dump) and, for failing steps, byte-identical raw dump before/after; "
                    "the model replays the same chain from the real codec output.",
            "note": "Partial: ConvertLn/Preprocess are used as black boxes (their output is an input of the model); RocksDB engine "
                    "(WriteBatch atomicity) trusted; lines over 64 KiB and NewUpdater errors not modelled. Known finding: "
                    "C08-dot-serial-mtime ('.' lines take their serial from file mtimes).",
        },
        "trusted": COMMON_TRUSTED + [
            "dnsdata.Codec.ConvertLn / Preprocess as black boxes (real output fed to the model); RocksDB WriteBatch atomicity",
        ],
        "rule": "56 (thorough ~400) chains of 1-5 diffs + 16 (~100) mtime cases per seed on rdb v1/v2 (some starting databases built "
                "by the SST builder); files with leading-blank and one-byte lines, diffs with skipped noise lines; every failing-step kind (absent value/key, one removal too many, unknown type, bad op byte, codec rejection after trimming, absent range point) interleaved; distinct = distinct (op, output shape)",
        "assumptions": ["values shorter than 2^32 bytes (SmallConv)"],
    },
    "C12": {
        "run_timeout": 3600,
        "shrink": False,
        "manifest": {
            "text": "Lean 4 theorems over a model of the response cache: cache_key_format_matches (format literal re-extracted "
                    "from handler.go) and cacheKey_injective (Go's rendering of \"%.3d/%d/%d/%s\" on a [2]byte location id, qtype, "
                    "qclass, name is injective for all inputs; the pre-fix format is proved to collide); for every interleaving of "
                    "any number of queries, reloads and evictions on the protocol machine (acquire generation under RLock, lookup, "
                    "compute, generation-checked insert, send, reload = gen++ and purge): cache_entry_current, "
                    "no_stale_after_reload (a query is only ever sent the uncached response of a generation not older than the one "
                    "it acquired), cache_invisible_seq (in every sequential history the cached handler sends exactly what the "
                    "cache-less handler sends); old_protocol_stale documents the repaired race. Link to the handler model: "
                    "serve_depends_on_key (for one database generation and client location, two queries with the same lower-case "
                    "name, type and class get replies equal up to the letter case of owner names - every qtype, ANY included since "
                    "the repair of the additional-section lookup), hence keyDetermines_serve and the corollaries "
                    "no_stale_after_reload_serve / cache_invisible_seq_serve without any hypothesis on the response function. "
                    "Correspondence on every run: fmt "
                    "rendering against real Sprintf; hit/miss/generation traces of a real cache-enabled handler against the "
                    "machine on random histories with reloads and on yield-hook schedules (query parked at each serve.* point "
                    "across a full reload) on CDB and RocksDB v1/v2; property oracle: cache-enabled and cache-less twin handlers "
                    "fed the same history answer identically.",
            "note": "Partial: weighted answers are outside (the model returns candidate sets; the cache does not store them with "
                    "WRSTimeout 0); the location lookup and the OPT/ECS echo on a hit are outside serve (C03/C10, twin-handler "
                    "oracle); expiry/LRU eviction covered only as an arbitrary evict step; in-flight queries across a RocksDB "
                    "catch-up are C05's known finding.",
        },
        "trusted": COMMON_TRUSTED + [
            "harness scheduler and verif-tag yield hooks; mapping of yield points to machine positions in Driver/C12.lean",
            "golang-lru and coredns cache plugin internals (only Add/Get/Purge behaviour used)",
        ],
        "rule": "300 (thorough 5000) key renderings with boundary numbers; old-format collision pairs; every yield point x warm/cold "
                "x reload x release x fresh queries per backend; 36 (1500) random sequential histories of 8-48 queries with <=3 "
                "reloads (full reloads, and on RocksDB catch-up reloads of a private copy after ApplyDiff); race schedules across a catch-up for park points after the last read; 60 (3000) random schedules with <=3 parked queries; 10 client profiles",
        "assumptions": ["2-byte location ids; the query name as asked lower-cases to the key name (ServeValid)"],
    },
}

# ---- later additions to the manifest texts (kept apart so that the long literals above stay put) ----
PROPS["C03"]["manifest"]["text"] += (
    " Pipeline: for every data file the model compiler accepts, file_mapRep / file_findMap, file_cdbRep / "
    "file_getLocationCdb, file_rdbRep / file_getLocationRdb and file_located_as_declared (findLocationTop on the compiled "
    "store returns exactly the location id and scope of Spec.locate on the file's declared maps and subnets; CDB in both "
    "bitmap modes, RocksDB v1, and file_located_as_declared_v2 for v2 keys), with kernel-checked witnesses that each "
    "well-formedness hypothesis is forced (locIds_needed_map / _subnet, w1_needed_rdb, noPctTag_needed, ecsRegular_needed, "
    "mapsUnique_needed_v2, mapLinesV2OK_needed).")
PROPS["C16"]["manifest"]["text"] = PROPS["C16"]["manifest"]["text"].replace(
    "find_first, writeFile_size;",
    "find_first, writeFile_size; dump_written (Dump of a written file lists exactly the records in insertion order), "
    "dump_make_roundtrip (Dump -> Make reproduces the file byte for byte, for every hash function), dump_lists_everything / "
    "dump_mem_iff_find;")
PROPS["C16"]["manifest"]["note"] = PROPS["C16"]["manifest"]["note"].replace(
    "Dump of a written file is covered by the correspondence only.",
    "dump_overflow_loses_record proves what is lost beyond 4 GiB.")
PROPS["C02"]["manifest"]["text"] += (
    " Per-request context cache of the RocksDB reader (Model/CtxCache.lean): cache_transparent_repaired (for every store and "
    "every sequence of exact and closest lookups through one context, incl. callers that rewrite their key buffer, the cached "
    "results equal the uncached ones - the code after repair d678df2); for the code before it cache_transparent_false, "
    "get_ignores_callers_buffer_false, the exact condition cache_transparent_iff and request_shape_transparent (the lookup "
    "shape of one request never met the defect). Correspondence: op ctx drives real RDB.get / FindClosest through one "
    "rdb.Context against the model and against fresh contexts.")
PROPS["C02"]["manifest"]["note"] = PROPS["C02"]["manifest"]["note"].replace(
    "per-request context cache and RocksDB iterators are covered by the correspondence only;",
    "RocksDB iterators (SeekForPrev) and Get errors are trusted / not modelled;")
PROPS["C09"]["manifest"]["text"] = PROPS["C09"]["manifest"]["text"].replace(
    "preprocess_preserves_compile (an accepted file",
    "text_normal_form / text_normal_form_dns (for every line text that parses, names with empty labels included - a.b., .a.b, "
    "a..b -, the printed text parses to the normal form of the record, which compiles to the same keys and values and prints "
    "to the same text: parse_marshal_norm, parse_yields_struct, name_writers_normalise); preprocess_preserves_compile (an accepted file")
PROPS["C09"]["manifest"]["note"] = (
    "Partial: remaining hypotheses NamesShort (no label whose quoted form reaches 256 bytes: text_normal_form_full_false, a "
    "64-byte label of NULs, outside DNS's 63-byte limit), PrintsDotStar ('.' and '*' printable - true of Go's table, both "
    "parts shown necessary), serial < 2^32, LibOK (the net.IP / IPNet and svcb.ParamList text round trips, C18).")
PROPS["C10"]["manifest"]["note"] = PROPS["C10"]["manifest"].get("note", "") + (
    " Files with subnets in the default map (classic '%lo,prefix' lines without map id) get no Spec verdict (LocIdsOK, "
    "Props/C03); for them the harness checks directly that a name without any '8' map is answered with scope 0.")
PROPS["C03"]["manifest"]["text"] = PROPS["C03"]["manifest"]["text"].replace(
    "proved negative witnesses w2_needed / w3_needed / w3_error for the well-formedness conditions.",
    "under W1 (no duplicate block) and W3 only - the former hypothesis W2 (0.0.0.0/n and ::/n taken for default routes) was a "
    "defect of Rearranger.AddLocation, repaired in /repo, and is gone from every theorem; proved negative witnesses "
    "w3_needed / w3_error / w3_needed_v6 for W3 (an IPv6 block other than ::/0 containing ::ffff:0:0/96: known finding "
    "C03-ipv6-block-over-ipv4-range, its repair fails dnsdata's own golden tests).")
PROPS["C03"]["manifest"]["note"] = "Hypotheses W1 and W3 (DESIGN.md section 6 C03 and 11.13) are enforced by the generator and explicit in the theorems; W3 is a known finding, not a well-formedness condition."
PROPS["C03"]["manifest"]["text"] = PROPS["C03"]["manifest"]["text"].replace(
    "under W1 (no duplicate block) and W3 only - the former hypothesis W2 (0.0.0.0/n and ::/n taken for default routes) was a "
    "defect of Rearranger.AddLocation, repaired in /repo, and is gone from every theorem; proved negative witnesses "
    "w3_needed / w3_error / w3_needed_v6 for W3 (an IPv6 block other than ::/0 containing ::ffff:0:0/96: known finding "
    "C03-ipv6-block-over-ipv4-range, its repair fails dnsdata's own golden tests).",
    "under W1 (no duplicate block) alone - the former hypotheses W2 (0.0.0.0/n and ::/n taken for default routes) and W3 (an "
    "IPv6 block other than ::/0 containing ::ffff:0:0/96) described defects of the rearranger, repaired in /repo (828f037, "
    "277e200, d84245a), and are gone from every theorem; the former negative witnesses are positive examples now, "
    "exSubnetsW2 / exSubnetsW3 / exFileW3 apply the theorems to sets that violate the old hypotheses.")
PROPS["C03"]["manifest"]["note"] = ("Hypotheses: aligned blocks, no duplicate (network, length) per map (W1: contradictory data, "
    "the two backends keep different ones - w1_needed_rdb), 2-byte location ids; LocIdsOK / NoPctTag / EcsRegular for the "
    "file-level theorems (DESIGN.md 11.10, 11.13).")
# --- last session: behavioural twins of three syntactic facts; caller-held locks in the lock table ---
PROPS["C01"]["manifest"]["text"] += (
    " The wild-safe byte classes are tied twice: op wildsafe reads the table of all 256 one-octet labels (and the count of "
    "accepted two-octet labels) off the running dnsLabelWildsafe through a verif-tagged hook and the driver compares it with "
    "Name.wildsafeByte; wildsafe_classes_match checks the syntactic copy of the classes when the function still is a chain "
    "of range tests (Option fact: none = shape not recognised, reported in the run's notes; the table comparison stands alone).")
PROPS["C12"]["manifest"]["text"] += (
    " The key itself is tied twice: after every hist / race schedule the key strings held by the real LRU "
    "(FBDNSDB.CacheKeysForVerif, verif-tagged hook) are compared with the keys of the model cache (keys= in the op output); "
    "cache_key_format_matches checks the syntactic copy of the fmt.Sprintf format when there is one (Option fact).")
PROPS["C20"]["manifest"]["text"] += (
    " any_hinfo_matches reads the HINFO fields as literals or package constants (Option facts: none when the record is no "
    "longer one composite literal with constant fields; the replies over real sockets are compared field by field in any case).")
PROPS["C05"]["manifest"]["text"] += (
    " reload_and_acquire_exclude_each_other is stated over fields, not function names: every non-init write of h.dnsdb / "
    "h.dbConfig.Path under reloadMu exclusive, every read under reloadMu, wherever the access lives; rows of an unexported "
    "helper list the receiver's lock that every one of its call sites holds (Generated.LockFacts.inferredCalledWith).")
PROPS["C14"]["manifest"]["text"] += (
    " Rows of an unexported, never-escaping method list the receiver's locks held at ALL of its call sites (inferred to a "
    "fixed point by the extractor, printed as inferredCalledWith; one call site without the lock removes it from every row).")
PROPS["C19"]["manifest"]["text"] += (
    " Lock traces inline calls of methods of the same receiver (a cleaner body moved into a helper keeps its trace). Op cconc: "
    "fresh counters incremented by several goroutines released together equal the sum of the increments.")
PROPS["C14"]["manifest"]["text"] += (
    " Channels that are shared fields: Generated.LockFacts.chanOps lists every send / receive with the locks held; "
    "no_three_party_wait (with threeParty_iff) rules out the reader-writer-lock / channel wait (a receive under lock L, a "
    "pending writer, a sender that must take L shared first), which no lock-order edge and no race report shows. When a lock "
    "theorem or the table no longer checks, the search runs the stress with 48-64 lookup workers against the 15 pooled "
    "iterators (watchdog for hangs). Lock regions understood: Lock + adjacent defer Unlock (also defer func(){Unlock}()), "
    "Lock ... Unlock in one statement list, with early exits `if c { ...; Unlock; return }` inside it.")
