"""Per-property configuration of ./check (what is built, what the harness runs, what is trusted)."""

COMMON_TRUSTED = [
    "fact extractor /verif/extract (go/ast) and correspondence harness /verif/harness",
    "Lean compiler/runtime executing the model definitions in the native driver dnsdrv",
]

PROPS = {
    "C17": {
        "prelude_ops": ["isprint"],
        "trusted": COMMON_TRUSTED + [
            "Go strconv.IsPrint enters the model as a parameter (theorems hold for every predicate); "
            "utf8.DecodeRune/EncodeRune, strconv.Quote/UnquoteChar, bytes.ReplaceAll are modelled in Lean and "
            "validated by the correspondence",
        ],
        "rule": "all byte strings of length <= 2 exhaustively (thorough: plus all 3-byte strings starting a "
                "multi-byte sequence), then structure-aware random strings to length 64 from one splitmix64 stream; "
                "distinct = distinct (op, output shape with hex runs collapsed) classes",
        "assumptions": ["strconv.IsPrint is false on ',' ':' and control characters only matters for the "
                        "no-separator theorem and is stated there as a hypothesis; checked on Go's table by the correspondence"],
    },
}
