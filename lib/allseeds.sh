#!/bin/bash
# Re-run every kept seeded change (seeded/<id>/patch*.diff) and the hand-made mutations
# (seeded/extra/*.diff) against the checks that should catch them: apply to /repo, run the quick
# tier, undo. Prints one line per (seed, check). Nothing else may use /repo while this runs.
cd "$(dirname "$0")/.."
run() { # patch checks...
  p=$1; shift
  if ! git -C /repo apply --check "$p" 2>/dev/null; then echo "SEED $p: does not apply any more"; return; fi
  git -C /repo apply "$p"
  for c in "$@"; do
    out=$(./check $c --tier quick 2>&1); rc=$?
    echo "SEED $(basename $(dirname $p))/$(basename $p) $c rc=$rc $(echo "$out" | grep -c '^VIOLATION') violations, nofail=$(echo "$out" | grep -c 'no-failing-input-found') | $(echo "$out" | tail -1 | sed 's/.*cases, //' | cut -c1-120)"
  done
  git -C /repo checkout -- .
}
S=$PWD/seeded
run $S/C01/patch.diff C01
run $S/C02/patch.diff C02
run $S/C03/patch.diff C03
run $S/C04/patch.diff C04
run $S/C05/patch.diff C12 C05
run $S/C06/patch.diff C06 C14
run $S/C07/patch.diff C07
run $S/C08/patch.diff C08
run $S/C09/patch.diff C09
run $S/C10/patch.diff C10
run $S/C11/patch.diff C11
run $S/C12/patch.diff C12
run $S/C13/patch.diff C13
run $S/C14/patch.diff C14 C06
run $S/C15/patch.diff C15
run $S/C16/patch.diff C16
run $S/C17/patch.diff C17
run $S/C18/patch.diff C18
run $S/C19/patch.diff C19
run $S/C19/patch2.diff C19
run $S/C20/patch.diff C20
run $S/C01b/patch.diff C01 C09
run $S/C02b/patch.diff C02 C03
run $S/C03b/patch.diff C03
run $S/C05b/patch.diff C05 C06
run $S/C06b/patch.diff C06
run $S/C07b/patch.diff C07
run $S/C15b/patch.diff C15 C08
run $S/C16b/patch.diff C16
run $S/C19b/patch.diff C19
run $S/C20b/patch.diff C20
run $S/C04b/patch.diff C04 C01 C02
run $S/C08b/patch.diff C08
run $S/C09b/patch.diff C09
run $S/C10b/patch.diff C10
run $S/C11b/patch.diff C11
run $S/C12b/patch.diff C12 C10
run $S/C13b/patch.diff C13
run $S/C14b/patch.diff C14
run $S/C17b/patch.diff C17
run $S/C18b/patch.diff C18
run $S/C01c/patch.diff C01 C02
run $S/C02c/patch.diff C02 C04
run $S/C03c/patch.diff C03
run $S/C05c/patch.diff C05
run $S/C07c/patch.diff C07
run $S/C08c/patch.diff C08
run $S/C09c/patch.diff C09
run $S/C10c/patch.diff C10
run $S/C12c/patch.diff C12
run $S/C13c/patch.diff C12 C13
run $S/C04c/patch.diff C04 C09
run $S/C06c/patch.diff C06
run $S/C11c/patch.diff C11
run $S/C14c/patch.diff C14
run $S/C15c/patch.diff C15
run $S/C16c/patch.diff C16
run $S/C18c/patch.diff C18
run $S/C19c/patch.diff C19
run $S/C20c/patch.diff C20
run $S/C17c/patch.diff C17
run $S/C07d/patch.diff C07 C15
run $S/C02d/patch.diff C03
run $S/C10d/patch.diff C10
run $S/C13d/patch.diff C13 C12
run $S/extra/m1-linkttl.diff C01
run $S/extra/m2-cachekey-format.diff C12
run $S/extra/m3-cacheadd-nolock.diff C14 C12
run $S/extra/m4-rearranger-tiebreak.diff C03
run $S/extra/m5-wildsafe-plus.diff C01 C02
run $S/extra/m6-cdb-probe-wrap.diff C16
run $S/extra/m7-ecs-default-scope.diff C10
run $S/extra/m8-rangepoint-marker.diff C03 C13
git -C /repo status --short
echo SEEDS-DONE
