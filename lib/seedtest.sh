#!/bin/sh
# apply a seeded change to /repo, run the given checks, undo it straight afterwards
#   lib/seedtest.sh <patch.diff> <Cxx> [Cyy ...]
cd "$(dirname "$0")/.."
patch=$1; shift
git -C /repo apply "$patch" || { echo "patch does not apply"; exit 2; }
for p in "$@"; do
  out=$(./check $p --tier quick 2>&1); rc=$?
  echo "== $p rc=$rc"
  echo "$out" | grep -E "^VIOLATION|^KNOWN|obligations|cases," | cut -c1-300
done
git -C /repo checkout -- . ; git -C /repo status --short
