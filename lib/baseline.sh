#!/bin/bash
# Runs the pinned baseline suite of /repo (guard off) and prints pass/fail counts.
export GOPROXY=off GOSUMDB=off GOTOOLCHAIN=local TMPDIR=${TMPDIR:-/tmp}
out=$(mktemp)
for m in ./dnsrocks ./dnsrocks/go-cdb-mods; do
  (cd /repo/$m && go test -mod=mod -json -vet=off -count=1 -timeout 25m ./... ) >> $out 2>&1
done
python3 - "$out" <<'PY'
import json,sys
p=f=0; failed=[]
for l in open(sys.argv[1]):
    try: d=json.loads(l)
    except: continue
    if d.get("Test") and d.get("Action")=="pass": p+=1
    if d.get("Test") and d.get("Action")=="fail": f+=1; failed.append(d["Package"]+"::"+d["Test"])
print(f"baseline: pass={p} fail={f}"); print("\n".join(failed))
PY
rm -f $out
# --all: also the packages that only link with -ldflags=-checklinkname=0 (not part of the pinned
# suite, but the repository's own tests): db, dnsserver, fbserver, whoami, logger, cmd
if [ "$1" = "--all" ]; then
  (cd /repo/dnsrocks && go test -mod=mod -vet=off -count=1 -ldflags=-checklinkname=0 ./db/ ./fbserver/ ./whoami/ ./logger/ ./cmd/... 2>&1 | tail -8
   go test -mod=mod -vet=off -count=1 -ldflags=-checklinkname=0 -skip TestFBDNSDBBadPathDontWrite ./dnsserver/... 2>&1 | tail -4)
  git -C /repo checkout -- dnsrocks/go.mod dnsrocks/go.sum 2>/dev/null
fi
