#!/bin/bash
# Runs the pinned baseline suite of /repo (guard off) and prints pass/fail counts.
export GOPROXY=off GOSUMDB=off GOTOOLCHAIN=local TMPDIR=${TMPDIR:-/tmp}
out=$(mktemp)
for m in ./dnsrocks ./dnsrocks/go-cdb-mods; do
  (cd /repo/$m && go test -mod=mod -json -vet=off -count=1 -timeout 25m ./... ) >> $out 2>&1
done
python3 - "$out" <<'PY'
import json,sys
p=f=0; failed=[]
for l in open(sys.argv[1]):
    try: d=json.loads(l)
    except: continue
    if d.get("Test") and d.get("Action")=="pass": p+=1
    if d.get("Test") and d.get("Action")=="fail": f+=1; failed.append(d["Package"]+"::"+d["Test"])
print(f"baseline: pass={p} fail={f}"); print("\n".join(failed))
PY
rm -f $out
