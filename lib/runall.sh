#!/bin/sh
# run every registered check (quick tier by default) and summarise; used before committing evidence
cd "$(dirname "$0")/.."
TIER=${1:-quick}
for p in $(python3 -c "import json;print(' '.join(c['property_id'] for c in json.load(open('MANIFEST.json'))['checks']))"); do
  s=$(date +%s)
  out=$(./check $p --tier $TIER 2>&1)
  rc=$?
  e=$(date +%s)
  echo "$p rc=$rc $((e-s))s $(echo "$out" | grep -c '^VIOLATION') violations $(echo "$out" | grep -c '^KNOWN-FINDING') known"
done
