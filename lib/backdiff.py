#!/usr/bin/env python3
"""Debug helper: queries on which the storage configurations disagree (impl only)."""
import sys
ops, impl = sys.argv[1:3]
limit = int(sys.argv[3]) if len(sys.argv) > 3 else 10
O = open(ops).read().split("\n"); I = open(impl).read().split("\n")
shown = 0
def strip(r):
    return "|".join("addr" if (len(p.split("/"))>=5 and p.split("/")[1] in ("1","28")) else p for p in r.split("|"))
for ln, (o, i) in enumerate(zip(O, I)):
    if not o.startswith("serve "): continue
    i = i.split("\t")[0][2:]
    f = o.split(" ")
    lines = [bytes.fromhex(x).decode("latin1") if x != "-" else "" for x in f[1].split(";")]
    qs = f[2].split(";")
    ib = dict(p.split(":", 1) for p in i.split("#") if ":" in p)
    res = {b: v.split("~") for b, v in ib.items()}
    n = min(len(v) for v in res.values())
    for k in range(n):
        vals = {b: strip(res[b][k]) for b in res}
        if len(set(vals.values())) > 1 and shown < limit:
            shown += 1
            q = qs[k].split(".")
            name = bytes.fromhex(q[0]).decode("latin1") if q[0] != "-" else ""
            print(f"--- line {ln+1} q{k}: {name} type {q[1]} class {q[2]} resolver {q[4][-8:]} opt {q[5]}")
            print("   file:", " ; ".join(lines)[:900])
            for b in res: print(f"   {b:7}", res[b][k][:400])
