#!/bin/bash
# round-5 seeds only
cd "$(dirname "$0")/.."
run() { p=$1; shift
  if ! git -C /repo apply --check "$p" 2>/dev/null; then echo "SEED $p: does not apply any more"; return; fi
  git -C /repo apply "$p"
  for c in "$@"; do
    out=$(./check $c --tier quick 2>&1); rc=$?
    echo "SEED $(basename $(dirname $p))/$(basename $p) $c rc=$rc $(echo "$out" | grep -c '^VIOLATION') violations, nofail=$(echo "$out" | grep -c 'no-failing-input-found') | $(echo "$out" | tail -1 | sed 's/.*cases, //' | cut -c1-120)"
  done
  git -C /repo checkout -- .
}
S=$PWD/seeded
run $S/C04c/patch.diff C04 C01 C09
run $S/C06c/patch.diff C06
run $S/C11c/patch.diff C11
run $S/C14c/patch.diff C14
run $S/C15c/patch.diff C15 C08
run $S/C16c/patch.diff C16
run $S/C18c/patch.diff C18
run $S/C19c/patch.diff C19 C14
run $S/C20c/patch.diff C20
git -C /repo status --short
echo SEEDS-DONE
