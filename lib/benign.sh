#!/bin/bash
# Apply each kept behaviour-preserving change (benign/<id>/r*.diff) and run the checks anchored in
# the code it touches: every line must say rc=0 (no alarm on code where the property holds).
#   lib/benign.sh [repo-dir] [id ...]      (default /repo, all)
cd "$(dirname "$0")/.."
R=${1:-/repo}; shift
export VERIF_REPO=$R
run() { p=$PWD/benign/$1; shift
  if ! git -C $R apply --check "$p" 2>/dev/null; then echo "BENIGN $p: does not apply"; return; fi
  git -C $R apply "$p"
  for c in "$@"; do
    out=$(./check $c --tier quick 2>&1); rc=$?
    echo "BENIGN $(basename $(dirname $p))/$(basename $p) $c rc=$rc $(echo "$out" | grep -c '^VIOLATION') violations, nofail=$(echo "$out" | grep -c 'no-failing-input-found') | $(echo "$out" | tail -1 | sed 's/.*cases, //' | cut -c1-120)"
    [ $rc != 0 ] && echo "$out" | grep -E '^VIOLATION|obligation|FAIL|fact' | head -8
  done
  git -C $R checkout -- . ; git -C $R clean -fdq
}
want() { [ ${#IDS[@]} = 0 ] && return 0; for i in "${IDS[@]}"; do [ "$i" = "$1" ] && return 0; done; return 1; }
IDS=("$@")
want B1 && { run B1/r1.diff C06 C14 C05; run B1/r2.diff C05 C06 C12; run B1/r3.diff C05 C06; }
want B2 && { run B2/r1.diff C19 C14; run B2/r2.diff C19; run B2/r3.diff C19 C01; }
want B3 && { run B3/r1.diff C12 C14 C13; run B3/r2.diff C11; run B3/r3.diff C02 C15; }
want B4 && { run B4/r1.diff C03; run B4/r2.diff C09; run B4/r3.diff C07; }
want B5 && { run B5/r1.diff C16; run B5/r2.diff C15 C14; run B5/r3.diff C08; }
want B6 && { run B6/r1.diff C01 C02 C04; run B6/r2.diff C10 C13 C12 C19; run B6/r3.diff C20 C13; }
want B7 && { run B7/r1.diff C18; run B7/r2.diff C09 C17 C01; run B7/r3.diff C17 C09; }
want BB1 && { run BB1/r1.diff C06 C14 C05; run BB1/r2.diff C14 C15; run BB1/r3.diff C05 C06 C12 C14; }
want BB2 && { run BB2/r1.diff C19 C14; run BB2/r2.diff C19 C14; run BB2/r3.diff C19; }
want BB3 && { run BB3/r1.diff C01 C02; run BB3/r2.diff C12 C14 C13; run BB3/r3.diff C20 C13; }
want BB4 && { run BB4/r1.diff C01 C09 C07 C03; run BB4/r2.diff C09 C01; run BB4/r3.diff C03 C10; }
want BC1 && { run BC1/r1.diff C02 C01; run BC1/r2.diff C10 C03; run BC1/r3.diff C03 C02 C10; }
want BC2 && { run BC2/r1.diff C07; run BC2/r2.diff C15 C08; run BC2/r3.diff C16; }
want BC3 && { run BC3/r1.diff C10 C13 C12; run BC3/r2.diff C19; run BC3/r3.diff C20 C13; }
want BD1 && { run BD1/r1.diff C06 C14; run BD1/r2.diff C19 C14; run BD1/r3.diff C14 C02; run BD1/r4.diff C05 C06 C12 C14; }
want BD2 && { run BD2/r1.diff C19 C14; run BD2/r2.diff C05 C06 C12 C14; run BD2/r3.diff C06 C05 C14; run BD2/r4.diff C11 C14; }
git -C $R status --short
echo BENIGN-DONE
