#!/usr/bin/env python3
"""Keep MANIFEST.json in sync with lib/propcfg.py: every property with a `manifest` block in PROPS is a
check; every other property of properties.jsonl is listed under not_applicable with its reason."""
import json, os, sys
VERIF = os.path.dirname(os.path.dirname(os.path.abspath(__file__)))
sys.path.insert(0, os.path.join(VERIF, "lib"))
from propcfg import PROPS, NOT_BUILT_REASON  # noqa

props = [json.loads(l) for l in open(os.path.join(VERIF, "properties.jsonl"))]
base = json.load(open("/root/.vp/BASELINE.json"))
m = json.load(open(os.path.join(VERIF, "MANIFEST.json")))
checks, na = [], []
for p in props:
    pid = p["id"]
    cfg = PROPS.get(pid)
    props_file = os.path.join(VERIF, "lean", "DnsVerif", "Props", pid + ".lean")
    if cfg and cfg.get("manifest") and os.path.exists(props_file) and not cfg.get("pending_props"):
        mf = cfg["manifest"]
        checks.append({
            "property_id": pid,
            "quick_cmd": f"./check {pid} --tier quick",
            "thorough_cmd": f"./check {pid} --tier thorough",
            "evidence_file": f"/verif/evidence/{pid}.json",
            "replay_cmd_template": f"./check {pid} --replay {{path}}",
            "engine": "lean4-proof+correspondence",
            "level_claimed": {"category": "proof", "text": mf["text"], "design_ref": f"DESIGN.md section 6 {pid}"},
            "level_note": mf["note"],
            "technique": mf.get("technique", "Lean 4 machine-checked proof over hand-written model + differential correspondence check"),
        })
    else:
        na.append({"property_id": pid, "reason": (cfg or {}).get("na_reason", NOT_BUILT_REASON)})
m["checks"] = checks
m["not_applicable"] = na
m["engines"][0]["serves_properties"] = [c["property_id"] for c in checks]
m["hooks"]["baseline_off_cmd"] = base["cmd"]
import subprocess
log = subprocess.run(["git", "-C", "/repo", "log", "--format=%h %s"], capture_output=True, text=True).stdout.strip().split("\n")
m["hooks"]["source_commits"] = [l.split(" ")[0] for l in log if l.split(" ", 1)[1].startswith("verif:")]
m["hooks"]["add_only"] = True
json.dump(m, open(os.path.join(VERIF, "MANIFEST.json"), "w"), indent=1)
print("checks:", [c["property_id"] for c in checks])
