#!/bin/bash
# round-3 seeds only
cd "$(dirname "$0")/.."
run() { p=$1; shift
  if ! git -C /repo apply --check "$p" 2>/dev/null; then echo "SEED $p: does not apply any more"; return; fi
  git -C /repo apply "$p"
  for c in "$@"; do
    out=$(./check $c --tier quick 2>&1); rc=$?
    echo "SEED $(basename $(dirname $p))/$(basename $p) $c rc=$rc $(echo "$out" | grep -c '^VIOLATION') violations, nofail=$(echo "$out" | grep -c 'no-failing-input-found') | $(echo "$out" | tail -1 | sed 's/.*cases, //' | cut -c1-120)"
  done
  git -C /repo checkout -- .
}
S=$PWD/seeded
run $S/C04b/patch.diff C04 C01
run $S/C08b/patch.diff C08
run $S/C09b/patch.diff C09
run $S/C10b/patch.diff C10 C03
run $S/C11b/patch.diff C11
run $S/C12b/patch.diff C12 C10
run $S/C13b/patch.diff C13
run $S/C14b/patch.diff C14
run $S/C17b/patch.diff C17
run $S/C18b/patch.diff C18
git -C /repo status --short
echo SEEDS-DONE
